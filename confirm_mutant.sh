#!/bin/bash
# ./confirm_mutant.sh <name> <out-dir> <demo-dest-dir-relative> <demo test cmd> <regression set: tonic|web|health>
# Confirms a seeded change in a scratch worktree (never in /repo): applies, runs the existing tests that
# exercise the touched crates, runs the demonstration (must fail), reverts, runs it again (must pass).
# On success stores it under /verif/seeded/<name>/ (patch.diff, demo/, meta.json with what was run).
set -u
name="$1"; out="$2"; dest="$3"; democmd="$4"; reg="$5"
WT=/tmp/wt-confirm
export CARGO_NET_OFFLINE=true
[ -d $WT ] || git -C /repo worktree add -q $WT HEAD
cd $WT && git checkout -q -- . && git clean -fdq -e target
log=/tmp/confirm-$name.log; : > $log
git apply --check "$out/patch.diff" || { echo "$name: patch does not apply"; exit 1; }
git apply "$out/patch.diff"
regres=""
run() { echo "\$ $*" >> $log; "$@" >> $log 2>&1; echo "rc=$?" >> $log; }
case "$reg" in
  tonic) cmds=("cargo test -p tonic --offline --lib" "cargo test -p integration-tests --offline --no-fail-fast" "cargo test -p compression --offline");;
  web)   cmds=("cargo test -p tonic-web --offline" "cargo test -p test_web --offline");;
  health) cmds=("cargo test -p tonic-health --offline");;
  tls)   cmds=("cargo test -p tonic --offline --lib --features tls-ring" "cargo test -p integration-tests --offline --no-fail-fast");;
esac
regok=1
for c in "${cmds[@]}"; do
  o=$($c 2>&1); echo "\$ $c" >> $log; echo "$o" | grep -E "^test result|FAILED|failed" >> $log
  fails=$(echo "$o" | grep -E "^test [^ ]+ \.\.\. FAILED" | grep -v connect_handles_tls | wc -l)
  passed=$(echo "$o" | grep -E "^test result" | sed -E 's/.* ([0-9]+) passed.*/\1/' | paste -sd+ | bc)
  regres="$regres | $c: ${passed:-0} passed, $fails unexpected failures"
  [ "$fails" = 0 ] || regok=0
  echo "$o" | grep -qE "^error(\[|:) " && { echo "$o" | grep -E "could not compile" >/dev/null && regok=0; }
done
mkdir -p "$WT/$dest"; cp -r "$out"/demo/. "$WT/$dest/"; rm -f "$WT/$dest/README.txt" "$WT/$dest"/*.diff
# a demonstration may need a test-infrastructure tweak (never a change to tonic's source)
for extra in "$out"/demo/*.diff; do [ -f "$extra" ] && git apply "$extra" && echo "applied test-infra diff $(basename $extra)" >> $log; done
o=$(bash -c "$democmd" 2>&1); echo "\$ (with change) $democmd" >> $log; echo "$o" | tail -15 >> $log
with_fail=0; echo "$o" | grep -qE "test result: FAILED|panicked|error: test failed" && with_fail=1
git apply -R "$out/patch.diff"
o=$(bash -c "$democmd" 2>&1); echo "\$ (without change) $democmd" >> $log; echo "$o" | tail -8 >> $log
without_pass=0; echo "$o" | grep -qE "test result: ok" && ! echo "$o" | grep -qE "test result: FAILED" && without_pass=1
git checkout -q -- . ; git clean -fdq -e target
echo "$name: regression_ok=$regok demo_fails_with_change=$with_fail demo_passes_without=$without_pass $regres"
if [ $regok = 1 ] && [ $with_fail = 1 ] && [ $without_pass = 1 ]; then
  d=/verif/seeded/$name; mkdir -p $d/demo; cp "$out/patch.diff" $d/; cp -r "$out"/demo/* $d/demo/
  python3 - "$name" "$out" "$democmd" "$regres" "$dest" <<'PY'
import json,sys
name,out,democmd,regres,dest=sys.argv[1:6]
m=json.load(open(out+'/meta.json'))
meta={"name":name,"breaks_property":m.get("property"),"summary":m.get("summary"),"needs_to_manifest":m.get("needs_to_manifest"),"files_changed":m.get("files_changed"),
 "confirmed_in_scratch_worktree":{"base_commit_of_repo":"see /verif/seeded/README.md","regression_with_change":regres.strip(" |"),"demo_placed_in":dest,"demo_command":democmd,"demo_fails_with_change":True,"demo_passes_without_change":True},
 "source":"independent sub-agent given only the property text and a scratch worktree"}
json.dump(meta,open(f"/verif/seeded/{name}/meta.json","w"),indent=1)
PY
  echo "$name: KEPT"
else
  echo "$name: NOT KEPT (see $log)"
fi
