#!/bin/bash
# ./seedtest.sh <patch.diff> <ID> [<ID>...]  — apply a seeded change to /repo, run the quick checks, undo it.
set -u
patch="$1"; shift
export VERIF_OUT_DIR=/tmp/seedreport-out; mkdir -p $VERIF_OUT_DIR
cd /repo && git diff --quiet || { echo "repo dirty"; exit 2; }
git -C /repo apply "$patch" || { echo "patch does not apply"; exit 2; }
for id in "$@"; do
  out=$(/verif/check "$id" quick 2>&1); rc=$?
  echo "$id rc=$rc $(echo "$out" | grep -E 'violation class' | head -3 | cut -c1-260)"
  echo "$out" | grep -E "HARNESS" | head -2
done
git -C /repo checkout -- .
