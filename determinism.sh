#!/bin/bash
# Determinism protocol (DESIGN.md §6): every traced run of a property, for n seeds per scenario, in
# three separate processes with different worker-thread counts and environment; the full event-log
# hashes (events + tape + schedule hash + verdict classes) are diffed, not just verdicts.
# usage: ./determinism.sh <ID>|all [n]     exit 0 = no divergence
set -u
ROOT="$(cd "$(dirname "$0")" && pwd)"
ids="${1:?property id or all}"; n="${2:-2000}"
[ "$ids" = all ] && ids="C01 C02 C03 C04 C05 C06 C07 C08 C09 C13 C14 C15 C16 C17 C18"
rc=0
tmp="$(mktemp -d)"
for id in $ids; do
  VERIF_THREADS=16 "$ROOT/check" "$id" det "$n" > "$tmp/a" 2>&1 || { echo "$id: det run failed"; tail -3 "$tmp/a"; rc=2; continue; }
  VERIF_THREADS=1 RUST_MIN_STACK=16000000 "$ROOT/check" "$id" det "$n" > "$tmp/b" 2>&1
  VERIF_THREADS=5 LANG=C TZ=UTC "$ROOT/check" "$id" det "$n" > "$tmp/c" 2>&1
  d1=$(diff "$tmp/a" "$tmp/b" | grep -c '^[<>]'); d2=$(diff "$tmp/a" "$tmp/c" | grep -c '^[<>]')
  lines=$(wc -l < "$tmp/a")
  echo "$id: $lines traced runs x 3 processes (16/1/5 threads): divergent lines $d1 / $d2"
  [ "$d1" = 0 ] && [ "$d2" = 0 ] || rc=1
done
rm -rf "$tmp"
exit $rc
