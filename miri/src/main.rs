//! Engine M — C18 under seeded preemptive thread schedules (Miri).
//!
//! Real `std::thread`s run under Miri's seeded scheduler (`-Zmiri-many-seeds`, preemption rate set
//! by the wrapper): two writers (one of which may clear), one checker and one watcher use the
//! health service concurrently through the generated client calling the generated server
//! in-process.  Every operation is stamped with a global sequence number at invocation and at
//! return; afterwards the observations are checked against the register semantics (a read returns
//! a value that some write could have made current between the read's invocation and return) and
//! the per-watcher subsequence / convergence rule.  Miri additionally reports data races and UB.
//!
//! argv: <mode> where mode selects the workload variant (0..3).  Exit code 1 + a line starting
//! with `C18-MIRI-VIOLATION` on a violation.

use std::future::Future;
use std::pin::Pin;
use std::sync::atomic::{AtomicU64, Ordering};
use std::sync::{Arc, Mutex};
use std::task::{Context, Poll, Wake, Waker};
use std::thread;
use tonic_health::pb::health_client::HealthClient;
use tonic_health::pb::HealthCheckRequest;
use tonic_health::ServingStatus;

struct Parker(thread::Thread);
impl Wake for Parker {
    fn wake(self: Arc<Self>) {
        self.0.unpark();
    }
}

fn block_on<F: Future>(f: F) -> F::Output {
    let mut f = Box::pin(f);
    let waker = Waker::from(Arc::new(Parker(thread::current())));
    let mut cx = Context::from_waker(&waker);
    loop {
        match f.as_mut().poll(&mut cx) {
            Poll::Ready(v) => return v,
            Poll::Pending => thread::park(),
        }
    }
}

struct Noop;
impl Wake for Noop {
    fn wake(self: Arc<Self>) {}
}

/// poll a future once; None = it would block
fn poll_once<F: Future>(f: Pin<&mut F>) -> Option<F::Output> {
    let waker = Waker::from(Arc::new(Noop));
    let mut cx = Context::from_waker(&waker);
    match f.poll(&mut cx) {
        Poll::Ready(v) => Some(v),
        Poll::Pending => None,
    }
}

static SEQ: AtomicU64 = AtomicU64::new(0);
static DONE: std::sync::atomic::AtomicBool = std::sync::atomic::AtomicBool::new(false);
/// start barrier: every thread spins on it so that all of them are runnable before any operation
static GO: std::sync::atomic::AtomicBool = std::sync::atomic::AtomicBool::new(false);
fn wait_go() {
    while !GO.load(Ordering::SeqCst) {
        thread::yield_now();
    }
}
fn tick() -> u64 {
    SEQ.fetch_add(1, Ordering::SeqCst) + 1
}

#[derive(Clone, Debug)]
enum Ev {
    /// a write: Some(status) = set, None = clear
    Write { inv: u64, ret: u64, val: Option<i32> },
    Check { inv: u64, ret: u64, got: Option<i32> },
    Sub { inv: u64, ret: u64, ok: bool },
    Report { inv: u64, ret: u64, got: Option<i32> }, // None = stream ended
}

fn wire(s: ServingStatus) -> i32 {
    match s {
        ServingStatus::Unknown => 0,
        ServingStatus::Serving => 1,
        ServingStatus::NotServing => 2,
    }
}

fn fail(msg: String, log: &[Ev]) -> ! {
    println!("C18-MIRI-VIOLATION {msg}");
    for e in log {
        println!("  {e:?}");
    }
    std::process::exit(1);
}

fn main() {
    let mode: u32 = std::env::args().nth(1).and_then(|s| s.parse().ok()).unwrap_or(0);
    let with_clear = mode % 2 == 1;
    // modes 4,5: the writers race on the *first registration* of a service while a watcher
    // subscribes as soon as it can
    let race = mode >= 4;
    let svc: &'static str = if race { "b" } else { "a" };
    let (reporter, server) = tonic_health::server::health_reporter();
    let log: Arc<Mutex<Vec<Ev>>> = Arc::new(Mutex::new(vec![]));
    if race {
        // not registered at the start
        log.lock().unwrap().push(Ev::Write { inv: 0, ret: 0, val: None });
    } else {
        // registered before the threads start so that Watch can subscribe
        block_on(reporter.set_service_status(svc, ServingStatus::Unknown));
        log.lock().unwrap().push(Ev::Write { inv: 0, ret: 0, val: Some(0) });
    }

    // a Check before any concurrency (a later Check must not be answered from stale state)
    {
        let mut c = HealthClient::new(server.clone());
        let inv = tick();
        let r = block_on(c.check(HealthCheckRequest { service: svc.into() }));
        let ret = tick();
        log.lock().unwrap().push(Ev::Check { inv, ret, got: r.ok().map(|x| x.into_inner().status) });
    }
    let mut hs = vec![];
    // writer 1
    {
        let (r, log) = (reporter.clone(), log.clone());
        hs.push(thread::spawn(move || {
            wait_go();
            for st in [ServingStatus::Serving, ServingStatus::NotServing] {
                let inv = tick();
                block_on(r.set_service_status(svc, st));
                let ret = tick();
                log.lock().unwrap().push(Ev::Write { inv, ret, val: Some(wire(st)) });
            }
        }));
    }
    // writer 2 (may clear at the end)
    {
        let (mut r, log) = (reporter.clone(), log.clone());
        hs.push(thread::spawn(move || {
            wait_go();
            let inv = tick();
            block_on(r.set_service_status(svc, ServingStatus::Serving));
            let ret = tick();
            log.lock().unwrap().push(Ev::Write { inv, ret, val: Some(1) });
            if with_clear {
                let inv = tick();
                block_on(r.clear_service_status(svc));
                let ret = tick();
                log.lock().unwrap().push(Ev::Write { inv, ret, val: None });
            }
        }));
    }
    // race mode: two more writers registering the same name for the first time
    if race {
        for st in [ServingStatus::Unknown, ServingStatus::NotServing] {
            let (r, log) = (reporter.clone(), log.clone());
            hs.push(thread::spawn(move || {
            wait_go();
                let inv = tick();
                block_on(r.set_service_status(svc, st));
                let ret = tick();
                log.lock().unwrap().push(Ev::Write { inv, ret, val: Some(wire(st)) });
            }));
        }
    }
    // checker
    {
        let (server, log) = (server.clone(), log.clone());
        hs.push(thread::spawn(move || {
            wait_go();
            let mut c = HealthClient::new(server);
            for _ in 0..3 {
                let inv = tick();
                let r = block_on(c.check(HealthCheckRequest { service: svc.into() }));
                let ret = tick();
                let got = match r {
                    Ok(x) => Some(x.into_inner().status),
                    Err(e) if e.code() == tonic::Code::NotFound => None,
                    Err(e) => {
                        println!("C18-MIRI-VIOLATION check failed with {:?}", e.code());
                        std::process::exit(1);
                    }
                };
                log.lock().unwrap().push(Ev::Check { inv, ret, got });
            }
        }));
    }
    // watcher: subscribes, reads two reports while the writers run
    let (wtx, wrx) = std::sync::mpsc::channel();
    {
        let (server, log) = (server.clone(), log.clone());
        hs.push(thread::spawn(move || {
            wait_go();
            let mut c = HealthClient::new(server);
            let mut inv = tick();
            let mut r = block_on(c.watch(HealthCheckRequest { service: svc.into() }));
            let mut ret = tick();
            if race {
                // not registered yet: try again until one of the racing writers has registered it
                let mut tries = 0;
                while r.is_err() && tries < 40 {
                    thread::yield_now();
                    inv = tick();
                    r = block_on(c.watch(HealthCheckRequest { service: svc.into() }));
                    ret = tick();
                    tries += 1;
                }
            }
            match r {
                Err(_) => {
                    log.lock().unwrap().push(Ev::Sub { inv, ret, ok: false });
                    let _ = wtx.send(None);
                }
                Ok(resp) => {
                    log.lock().unwrap().push(Ev::Sub { inv, ret, ok: true });
                    let mut s = resp.into_inner();
                    let mut ended = false;
                    // blocking reads while the writers run; the main thread sets `DONE` and then
                    // performs one more write, which is guaranteed to wake a blocked read
                    loop {
                        let inv = tick();
                        let m = block_on(s.message());
                        let ret = tick();
                        match m {
                            Ok(Some(x)) => log.lock().unwrap().push(Ev::Report { inv, ret, got: Some(x.status) }),
                            Ok(None) => {
                                log.lock().unwrap().push(Ev::Report { inv, ret, got: None });
                                ended = true;
                                break;
                            }
                            Err(e) => {
                                println!("C18-MIRI-VIOLATION watch stream failed with {:?}", e.code());
                                std::process::exit(1);
                            }
                        }
                        if DONE.load(Ordering::SeqCst) {
                            break;
                        }
                    }
                    let _ = wtx.send(if ended { None } else { Some(s) });
                }
            }
        }));
    }
    GO.store(true, Ordering::SeqCst);
    // writers and checker first; then release the watcher with one more write
    let watcher = hs.pop().unwrap();
    for h in hs {
        h.join().unwrap();
    }
    DONE.store(true, Ordering::SeqCst);
    if !with_clear {
        let inv = tick();
        block_on(reporter.set_service_status(svc, ServingStatus::NotServing));
        let ret = tick();
        log.lock().unwrap().push(Ev::Write { inv, ret, val: Some(2) });
    } else {
        // a clear that is definitely the last write (writer 2's clear may overlap writer 1's sets)
        let mut r = reporter.clone();
        let inv = tick();
        block_on(r.clear_service_status(svc));
        let ret = tick();
        log.lock().unwrap().push(Ev::Write { inv, ret, val: None });
    }
    watcher.join().unwrap();
    // ---- quiescent: a final Check after every writer has returned
    {
        let mut c = HealthClient::new(server.clone());
        let inv = tick();
        let r = block_on(c.check(HealthCheckRequest { service: svc.into() }));
        let ret = tick();
        let got = match r {
            Ok(x) => Some(x.into_inner().status),
            Err(e) if e.code() == tonic::Code::NotFound => None,
            Err(e) => {
                println!("C18-MIRI-VIOLATION check failed with {:?}", e.code());
                std::process::exit(1);
            }
        };
        log.lock().unwrap().push(Ev::Check { inv, ret, got });
    }
    // ---- quiescent: drain the watcher until it blocks or ends
    let mut blocked = false;
    if let Ok(Some(mut s)) = wrx.recv() {
        for _ in 0..16 {
            let inv = tick();
            let r = {
                let fut = s.message();
                let mut fut = std::pin::pin!(fut);
                poll_once(fut.as_mut())
            };
            let ret = tick();
            match r {
                None => {
                    blocked = true;
                    break;
                }
                Some(Ok(Some(x))) => log.lock().unwrap().push(Ev::Report { inv, ret, got: Some(x.status) }),
                Some(Ok(None)) => {
                    log.lock().unwrap().push(Ev::Report { inv, ret, got: None });
                    break;
                }
                Some(Err(e)) => {
                    println!("C18-MIRI-VIOLATION watch stream failed with {:?}", e.code());
                    std::process::exit(1);
                }
            }
        }
    }
    let log = log.lock().unwrap().clone();
    if std::env::args().nth(2).is_some() {
        for e in &log {
            println!("  {e:?}");
        }
    }
    judge(&log, blocked);
    println!("c18miri mode={mode} ok: {} events", log.len());
}

fn judge(log: &[Ev], blocked: bool) {
    let writes: Vec<(u64, u64, Option<i32>)> = log.iter().filter_map(|e| if let Ev::Write { inv, ret, val } = e { Some((*inv, *ret, *val)) } else { None }).collect();
    // a read [inv, ret] may return the value of write w iff w was invoked before the read returned
    // and no other write is known to lie entirely between w's return and the read's invocation
    let admissible = |inv: u64, ret: u64| -> Vec<Option<i32>> {
        writes.iter().filter(|w| w.0 < ret).filter(|w| !writes.iter().any(|x| x.0 > w.1 && x.1 < inv)).map(|w| w.2).collect()
    };
    for e in log {
        if let Ev::Check { inv, ret, got } = e {
            if !admissible(*inv, *ret).contains(got) {
                fail(format!("check [{inv},{ret}] returned {got:?}, admissible {:?}", admissible(*inv, *ret)), log);
            }
        }
    }
    // watcher
    let sub = log.iter().find_map(|e| if let Ev::Sub { inv, ret, ok } = e { Some((*inv, *ret, *ok)) } else { None });
    let Some((sinv, sret, ok)) = sub else { return };
    // the clear that ended the watcher's registration: the first clear not before the subscription
    let cleared = writes.iter().filter(|w| w.2.is_none()).find(|w| w.1 > sinv).copied();
    if !ok {
        // subscription may only be refused if the clear could already have happened
        // legitimate exactly when "not registered" was an admissible state of the register between
        // the subscription's invocation and its return
        if !admissible(sinv, sret).contains(&None) {
            fail("watch subscription refused although the service was registered".into(), log);
        }
        return;
    }
    let _ = sinv;
    let reports: Vec<(u64, u64, Option<i32>)> = log.iter().filter_map(|e| if let Ev::Report { inv, ret, got } = e { Some((*inv, *ret, *got)) } else { None }).collect();
    let mut last: Option<i32> = None;
    let mut ended = false;
    let mut prev_ret = 0u64;
    for (inv, ret, got) in &reports {
        match got {
            Some(st) => {
                if ended {
                    fail("report after the stream ended".into(), log);
                }
                // value must come from a write invoked before this read returned and not definitely
                // overwritten before the previous report was delivered
                let ok = writes.iter().any(|w| w.2 == Some(*st) && w.0 < *ret && !writes.iter().any(|x| x.2.is_some() && x.0 > w.1 && x.1 < prev_ret.min(*inv)));
                if !ok {
                    fail(format!("watch report {st} at [{inv},{ret}] is stale or was never set"), log);
                }
                last = Some(*st);
                prev_ret = *ret;
            }
            None => {
                ended = true;
                match cleared {
                    None => fail("watch stream ended although the service was never cleared".into(), log),
                    Some(c) => {
                        if c.0 > *ret {
                            fail("watch stream ended before the clear was invoked".into(), log);
                        }
                    }
                }
            }
        }
    }
    if reports.is_empty() {
        fail("the watcher never reported anything".into(), log);
    }
    // convergence at quiescence: the last set value(s) that are not definitely overwritten
    let sets: Vec<&(u64, u64, Option<i32>)> = writes.iter().filter(|w| w.2.is_some()).collect();
    let finals: Vec<i32> = sets.iter().filter(|w| !sets.iter().any(|x| x.0 > w.1)).map(|w| w.2.unwrap()).collect();
    if let Some(c) = cleared {
        // cleared: the stream must have ended (it is drained at quiescence), after reporting a
        // value that could have been the last one before the clear
        if !ended {
            fail(format!("service cleared at [{},{}] but the drained watch stream did not end (blocked={blocked})", c.0, c.1), log);
        }
        let before_clear: Vec<i32> = sets.iter().filter(|w| w.0 < c.1).filter(|w| !sets.iter().any(|x| x.0 > w.1 && x.1 < c.0)).map(|w| w.2.unwrap()).collect();
        if let Some(l) = last {
            if !before_clear.contains(&l) {
                fail(format!("stream ended after reporting {l}; last statuses before the clear could be {before_clear:?}"), log);
            }
        }
    } else {
        if !blocked && !ended {
            fail("drain did not reach quiescence".into(), log);
        }
        match last {
            Some(l) if finals.contains(&l) => {}
            other => fail(format!("watcher drained to {other:?} and blocked; the latest status is one of {finals:?}"), log),
        }
    }
}
