#!/bin/bash
# C18 engine M: seeded preemptive thread schedules under Miri.  usage: run.sh quick|thorough
# Appends its coverage to /verif/evidence/C18.json (key coverage.engine_M) and prints a VIOLATION line on failure.
set -u
ROOT="$(cd "$(dirname "$0")/.." && pwd)"
tier="${1:-thorough}"
seeds=48; [ "$tier" = quick ] && seeds=8
base="${VERIF_SEED:-20261003}"; lo=$(( base % 100000 )); hi=$(( lo + seeds ))
cd "$ROOT/miri" || exit 2
export CARGO_NET_OFFLINE=true
t0=$(date +%s)
total=0; viol=0; out="$ROOT/miri/target/miri-c18.log"; mkdir -p "$ROOT/miri/target"; : > "$out"
for mode in 0 1 2 3 4 5; do
  rate=$(python3 -c "print([0.05,0.1,0.2,0.1,0.2,0.4][$mode])")
  mhi=$hi; [ $mode -ge 4 ] && mhi=$(( lo + 2 * seeds ))   # the registration-race modes get twice the seeds
  MIRIFLAGS="-Zmiri-many-seeds=$lo..$mhi -Zmiri-preemption-rate=$rate -Zmiri-disable-isolation" cargo +nightly miri run --offline -- $mode >> "$out" 2>&1
  rc=$?
  n=$(grep -c "c18miri mode=$mode ok" "$out")
  total=$(( total + mhi - lo ))
  if [ $rc -ne 0 ] || grep -q "C18-MIRI-VIOLATION\|Undefined Behavior\|data race" "$out"; then viol=1; fi
done
t1=$(date +%s)
okruns=$(grep -c "c18miri mode=" "$out")
python3 - "$ROOT" "$tier" "$lo" "$hi" "$total" "$okruns" "$viol" "$(( t1 - t0 ))" <<'PY'
import json,sys
root,tier,lo,hi,total,okruns,viol,wall=sys.argv[1:9]
p=f"{root}/evidence/C18.json"
try: ev=json.load(open(p))
except Exception: ev=None
if ev:
    ev["coverage"]["engine_M"]={"tool":"cargo +nightly miri run, -Zmiri-many-seeds, preemption rates 0.05..0.4","seed_range":[int(lo),int(hi)],"workload_modes":6,"executions":int(total),"executions_completed_ok":int(okruns),"wall_s":int(wall),"violation":bool(int(viol)),
      "what":"2 writer threads (one may clear), 1 checker, 1 watcher through generated HealthClient -> HealthServer in-process; register-semantics check of every Check, per-watcher subsequence/convergence/clear rule, plus Miri's data-race and UB detection"}
    ev["wall_s"]=ev.get("wall_s",0)+int(wall)
    if int(viol): ev["violations"]=ev.get("violations",0)+1
    json.dump(ev,open(p,"w"),indent=1)
PY
if [ $viol -ne 0 ]; then
  mkdir -p "$ROOT/replays"; rp="$ROOT/replays/C18-miri-$lo-$hi.log"; cp "$out" "$rp"
  grep -m3 "C18-MIRI-VIOLATION\|Undefined Behavior\|data race\|error" "$out"
  echo "VIOLATION property=C18 replay=$rp"
  exit 1
fi
echo "C18 engine M: $okruns/$total Miri executions ok (seeds $lo..$hi x 6 workload modes) in $(( t1 - t0 ))s"
exit 0
