#!/bin/sh
# Generates the simulation PKI (run once, offline; the output is committed).  RSA-2048 so that
# handshake message lengths are deterministic; validity 100 years (rustls reads the wall clock).
set -e
OPENSSL=${OPENSSL:-/root/miniconda/bin/openssl}   # needs -not_before/-not_after (OpenSSL >= 3.4)
mkca() { $OPENSSL req -x509 -newkey rsa:2048 -nodes -keyout $1.key -out $1.pem -not_before 20200101000000Z -not_after 21200101000000Z -subj "/CN=$2" -addext "basicConstraints=critical,CA:TRUE" -addext "keyUsage=critical,keyCertSign,cRLSign" 2>/dev/null; }
mkleaf() { # name ca cn san eku
  $OPENSSL req -newkey rsa:2048 -nodes -keyout $1.key -out $1.csr -subj "/CN=$3" 2>/dev/null
  printf "basicConstraints=CA:FALSE\nkeyUsage=critical,digitalSignature,keyEncipherment\nextendedKeyUsage=$5\n$4\n" > $1.ext
  $OPENSSL x509 -req -in $1.csr -CA $2.pem -CAkey $2.key -CAcreateserial -out $1.pem -not_before 20200101000000Z -not_after 21200101000000Z -extfile $1.ext 2>/dev/null
  rm -f $1.csr $1.ext
}
mkca ca_a "Sim CA A"; mkca ca_b "Sim CA B"; mkca ca_c "Sim Client CA"
mkleaf server ca_a sim.test "subjectAltName=DNS:sim.test" serverAuth
mkleaf client_ok ca_c client-ok "subjectAltName=DNS:client-ok" clientAuth
mkleaf client_other ca_b client-other "subjectAltName=DNS:client-other" clientAuth
rm -f *.srl
# added later (existing files were NOT regenerated): a client identity that is a chain — leaf issued by
# an intermediate CA issued by ca_c; client_chain.pem = leaf + intermediate
mkint() { # name ca cn
  $OPENSSL req -newkey rsa:2048 -nodes -keyout $1.key -out $1.csr -subj "/CN=$3" 2>/dev/null
  printf "basicConstraints=critical,CA:TRUE\nkeyUsage=critical,keyCertSign,cRLSign\n" > $1.ext
  $OPENSSL x509 -req -in $1.csr -CA $2.pem -CAkey $2.key -CAcreateserial -out $1.pem -not_before 20200101000000Z -not_after 21200101000000Z -extfile $1.ext 2>/dev/null
  rm -f $1.csr $1.ext
}
[ -f ca_c_int.pem ] || { mkint ca_c_int ca_c "Sim Client Intermediate CA"; mkleaf client_chain ca_c_int client-chain "subjectAltName=DNS:client-chain" clientAuth; cat ca_c_int.pem >> client_chain.pem; rm -f *.srl; }
