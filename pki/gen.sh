#!/bin/sh
# Generates the simulation PKI (run once, offline; the output is committed).  RSA-2048 so that
# handshake message lengths are deterministic; validity 100 years (rustls reads the wall clock).
set -e
OPENSSL=${OPENSSL:-$(command -v openssl || echo /root/miniconda/bin/openssl)}
mkca() { $OPENSSL req -x509 -newkey rsa:2048 -nodes -keyout $1.key -out $1.pem -not_before 20200101000000Z -not_after 21200101000000Z -subj "/CN=$2" -addext "basicConstraints=critical,CA:TRUE" -addext "keyUsage=critical,keyCertSign,cRLSign" 2>/dev/null; }
mkleaf() { # name ca cn san eku
  $OPENSSL req -newkey rsa:2048 -nodes -keyout $1.key -out $1.csr -subj "/CN=$3" 2>/dev/null
  printf "basicConstraints=CA:FALSE\nkeyUsage=critical,digitalSignature,keyEncipherment\nextendedKeyUsage=$5\n$4\n" > $1.ext
  $OPENSSL x509 -req -in $1.csr -CA $2.pem -CAkey $2.key -CAcreateserial -out $1.pem -not_before 20200101000000Z -not_after 21200101000000Z -extfile $1.ext 2>/dev/null
  rm -f $1.csr $1.ext
}
mkca ca_a "Sim CA A"; mkca ca_b "Sim CA B"; mkca ca_c "Sim Client CA"
mkleaf server ca_a sim.test "subjectAltName=DNS:sim.test" serverAuth
mkleaf client_ok ca_c client-ok "subjectAltName=DNS:client-ok" clientAuth
mkleaf client_other ca_b client-other "subjectAltName=DNS:client-other" clientAuth
rm -f *.srl
