#!/usr/bin/env python3
"""Regenerates /verif/MANIFEST.json from the tables below (run by hand after adding a check)."""
import json, os
ROOT = os.path.dirname(os.path.abspath(__file__))

TECH = "deterministic simulation with fault injection: seeded search over schedules/chunkings/fault scripts on a single choice tape, reference-model and independent-decoder oracles, tape minimisation + exact replay"

# id -> (engine, design_ref, level text, level note, thorough?)
CLAIMED = {
 "C01": ("F", "DESIGN.md §7 C01, §3.2",
   "Seeded exploration (engine F): real EncodeBody (client/server role, identity/gzip/deflate/zstd, raw and prost codecs, randomised buffer/yield settings) is driven under a drawn source-readiness schedule and under the all-Ready reference schedule; the emitted bytes must be identical, parse with an independent decoder, and — re-cut at drawn offsets (inside prefixes, inside compressed payloads, 1-byte chunks) and delivered with delays, as contiguous or non-contiguous (segmented) buffers, by a body that may report is_end_stream — decode through real Streaming into exactly the original messages, then a clean end. Message sources are unfused in the hostile way the Stream contract allows (polled after None they block for ever). Evidence, not proof.",
   "Trusted: independent frame parser, flate2 write::*/zstd bulk. Per-response opt-out is exercised via server::Grpc in the C02/C05 loopback scenarios."),
 "C02": ("F+N", "DESIGN.md §7 C02, §3.2, §3.3, §13",
   "Seeded exploration. Engine N: real Server + 1..3 Channels (hyper, h2, Buffer, router) over the simulated network with fragmentation, stalls and randomised HTTP/2 windows/frame size; 1..8 concurrent tagged calls of all shapes multiplexed on the connections, identity-channel oracle per call; a separate fault-injecting configuration kills the connection at a drawn byte offset (never success with wrong/missing data, items a prefix, clean end only after true OK, no hang); the raw-h2 server-view scenario judges status/messages as an independent wire reader. Engine F: generated clients call generated servers (raw codec, prost with/without package; all four shapes) over a loopback whose request and response bodies are re-chunked and delayed by the tape; scripted handlers produce k messages then OK or any Status (Unicode message, details, metadata), possibly refusing the call; the oracle is the identity channel on messages, metadata and status in both directions. Evidence, not proof.",
   "Engine N varies interleavings through the seams (readiness, stalls, windows, start offsets, handler gaps); tokio's run queue is FIFO. Pipe capacity >= HTTP/2 windows and calls start after SETTINGS settle (DESIGN §13.2). Trusted: harness handlers, loopback, raw h2 peer."),
 "C03": ("F+N", "DESIGN.md §7 C03, §13",
   "Engine N true wire views through raw peers written on the h2 crate only: what a raw h2 server receives from a tonic Channel (method, :path, :scheme, content-type, te, body, END_STREAM, no trailers) and what a raw h2 client receives from a tonic Server (status, content-type, DATA, one grpc-status in trailers or END_STREAM headers). Engine F passive wire monitor on every C01/C02/C06 run: request head (POST, HTTP/2, path, content-type, te), response head (200, content-type), bodies parsed by an independent length-prefix parser and inflated with the announced encoding against the codec's serialization, exactly one grpc-status in a single final trailers block or in body-less headers, no request trailers. Scenario F-encoder-error: a codec that fails to serialize one message at any position after writing part of it — the wire carries exactly the earlier messages, whole, then one error status (heap contents are zero-filled by the harness allocator so that leaked unwritten bytes replay). Evidence, not proof.",
   "'Nothing after trailers' is judged as hyper's HTTP/2 sender consumes a body. In engine F the wire is the http::Request/Response handed to the transport seam."),
 "C04": ("F+N", "DESIGN.md §7 C04, §13",
   "Seeded exploration + complete enumeration of the two tables (engine F): a scripted hostile peer answers a generated client with arbitrary/malformed grpc-status, grpc-message (bad percent-encoding, bad UTF-8), grpc-status-details-bin (bad base64); every HTTP status 100..=599 without grpc-status; every reset reason 0..=15 as an h2::Error body error; oracle = never panic, always a definite Status, mapping tables of the property. The status round-trip clause is sampled by the C02 loopback runs.",
   "Engine N adds a raw h2 server sending real RST_STREAM(reason) before/after headers/mid-body and HTTP statuses with non-gRPC bodies (the real hyper::Error path), and the raw-client server view judging grpc-message/details as written on the wire. The for-all-statuses round trip is a pure function: sampled, not decided. Known finding: C04/reset-read-as-success-reason-0 (known_findings.json)."),
 "C05": ("F", "DESIGN.md §7 C05",
   "Complete enumeration of the 2048 (server accept, server send, client send, client accept) configurations followed by seeded exploration (engine F): two tonic parties over the loopback, a foreign client peer with arbitrary grpc-accept-encoding/grpc-encoding values and flag bytes against a tonic server, a foreign server peer against a tonic client; oracle = reference negotiation function (chosen in send ∩ offered, UNIMPLEMENTED + exact accept list on refusal, INTERNAL for an ill-flagged message — compressed, plain or empty payload —, client sends/advertises exactly its configuration).",
   "Whether a server must compress when it could is not prescribed (probe only)."),
 "C06": ("F", "DESIGN.md §7 C06",
   "Seeded exploration (engine F): Streaming with a decoding limit fed frames whose wire length is limit-1/limit/limit+1 (also compressed, also at the 4 MiB default) and declared lengths up to 2^32-1 followed by a silent peer, under a counting allocator; an accepted message is compared with its serialization however far it inflates beyond the limit; EncodeBody with an encoding limit and an oversized message at any position of a stream whose earlier messages are buffered or flushed depending on readiness; thorough adds the >4 GiB probe.",
   "For compressed outgoing messages the verdict is judged away from the boundary only (conservation always)."),
 "C07": ("F", "DESIGN.md §7 C07, §3.2",
   "Seeded exploration (engine F): tonic::codec::Streaming is driven poll by poll over simulated bodies carrying mutated/random byte strings in arbitrary chunkings, with injected Pending, body errors of several types, trailers and a silent peer; an independent sequential framing parser is the reference; the stream is polled past its first terminal event. A clean batch is evidence, not proof.",
   "Trusted: the harness's independent frame parser and flate2 write::*/zstd bulk decoders; body scripts are conformant HTTP bodies (nothing after trailers)."),
 "C09": ("N+F", "DESIGN.md §7 C09, §3.3",
   "Seeded exploration in virtual time (engine N): real tonic Server (Server::timeout) and Channel (Endpoint::timeout) with Request::set_timeout over the simulated network on tokio's paused clock; handler latency on a grid around D = min of the configured deadlines; oracle: the true response below D-g, CANCELLED 'Timeout expired' with elapsed in [D, D+g] above D+g, either inside the band (g = 2 ms); half of the runs issue a second call with an independent deadline on the same channel; a raw h2 server that never answers checks the caller's own deadline locally. Engine F: the grpc-timeout value a foreign peer receives (<= 8 digits + unit, never longer, loses < 1 unit) for durations biased to unit boundaries up to 99999999 h; the server parser through hook H2 on every unit x digit-count structure (enumerated) and malformed strings.",
   "Guard band 2 ms (tokio timer wheel granularity); the grammar clauses are pure functions and are sampled structurally, not decided. Hooks: H1 (no wall-clock date header), H2 (parser wrapper)."),
 "C13": ("N", "DESIGN.md §7 C13, §3.3",
   "Seeded exploration in virtual time (engine N): real serve_with_incoming_shutdown with 0..3 connections and 1..6 unary/streaming/bidi calls with virtual latencies; the signal is placed at a drawn virtual instant or right after the k-th handler entry; one more connection is offered strictly after the signal; oracle: every call whose handler was entered completes at its caller with the true outcome (C02 oracle), the late connection is never served, the serve future resolves only after every accepted connection's server end was dropped (ordered by a global event sequence) and does resolve once they have. Also drawn: accept errors from the listener, shutdown by the end of the incoming stream, Server::timeout (150 ms, above every handler latency) and max_connection_age (20/60 ms) — none may weaken the drain.",
   "Accepted = handler entered. Closure of connections after the last in-flight call is a probe, not judged."),
 "C14": ("N", "DESIGN.md §7 C14, §3.3",
   "Complete enumeration of all 726 fault scripts of length <= 5 over {connect fails, connect succeeds, established connection dropped} x {lazy, eager}, then seeded random scripts up to length 14 (engine N): real Channel (Buffer worker, Reconnect, hyper/h2 client) and Server; a call (sometimes two back-to-back) at every quiescent point; oracle = two-state reference automaton matching per-call outcome and connector invocation count one-to-one (connector failure => UNAVAILABLE to the triggering call only, eager initial failure reported immediately, success without rebuilding once reachable). 12 io::ErrorKinds and connect_timeout drawn. Relaxed configuration: the connection dies at a drawn byte offset during a call — EOF, reset, or a silent partition (blackhole) with HTTP/2 keep-alive configured — => definite result within the keep-alive bound, no hang/panic, recovery at the next quiescent calls. Graceful configuration: the server retires connections by GOAWAY (max_connection_age) while the channel is idle; every later round of calls succeeds on a fresh connection. URI-without-scheme configuration: every call gets the same definite error, no panic in the background task. Balanced configuration (hook H4): tower p2c Balance over one lazily connected endpoint under failing/succeeding attempts and killed connections — no hang, failures UNAVAILABLE, at most one attempt per call, recovery; in a third of the runs the application replaces the endpoint (Remove+Insert or Insert over the live key) and the old host is gone for good. TLS part (run by the same command from the tsim-tls package, evidence merged under coverage.tls_part): a TLS channel whose connections die 1..3 times reconnects through the TLS connector every time. Connect-timeout configuration: attempts that never complete or complete too late are given up after Endpoint::connect_timeout, eager and lazy.",
   "Calls are issued at quiescent points, as the property states."),
 "C15": ("N", "DESIGN.md §7 C15, §3.3",
   "Complete enumeration of the 486-cell matrix (client roots x domain x server ALPN x assume_http2 x server client-auth x client identity), each cell again under further seeded network schedules (engine N, real rustls on both ends of the simulated pipe): tonic ClientTlsConfig against tonic ServerTlsConfig, or against the harness's own rustls acceptor + raw h2 server for ALPN absent/http/1.1; oracle = verdict table (success iff chain valid, name matches, h2 negotiated or opted out, client-auth satisfied); in every failing cell the call does not succeed and no request reaches a handler; the captured client bytes always start with a TLS handshake record and never show the HTTP/2 preface or the request canary in clear; handlers see every certificate of the verified client identity — a single certificate or a leaf+intermediate chain, drawn — DER-equal; use_key_log() drawn on both sides changes no verdict; https without TLS config fails with zero bytes written; a server whose client-CA material holds no usable certificate (30 cells: empty / not PEM / a key / garbage DER / whitespace x required/optional x client identity) is refused at configuration or serves nobody when authentication is required. Trust roots are supplied through the different builder methods (ca_certificate / ca_certificates, drawn).",
   "Cells the property leaves open are not judged. rustls checks certificate validity against the wall clock (PKI valid 2020..2120). Ciphertext differs between executions; schedule, lengths and verdicts replay exactly."),
 "C16": ("F", "DESIGN.md §7 C16",
   "Seeded exploration (engine F): the real GrpcWebLayer wraps a scripted inner service; grpc-web requests (binary or one base64 string) are cut at arbitrary positions incl. inside a 4-char quantum; inner gRPC responses (frames cut anywhere, arbitrary trailers incl. repeated names/obs-text, or trailers-only) are translated for Accept binary/text/absent/other; an independent grpc-web decoder checks identical message bytes + exactly one final 0x80 trailers frame listing every trailer; the (method, version, content-type) cases are checked for 405/400/pass-through-unchanged.",
   "The layer is driven as a tower::Service (no HTTP server around it)."),
 "C17": ("F", "DESIGN.md §7 C17",
   "Seeded exploration (engine F): the real GrpcWebClientService in front of a scripted grpc-web server whose body is built by an independent encoder: 0..6 message frames + trailers frame (values with ':' and spaces, repeated names, empty values), delivered in any chunking (inside frame headers, inside the trailers frame, message and trailers in one chunk, 1-byte chunks), truncated at any byte, malformed variants; oracle = same message bytes, full trailer multiset, and an error (never a clean end, hang or busy loop) for a body cut inside a frame.",
   "A cut exactly at a frame boundary is not judged."),
 "C18": ("F+M", "DESIGN.md §7 C18, §3.4, §13",
   "Seeded exploration (engine F): histories of set/clear/check/watch/next over a 3-service alphabet issued as tasks on the simulator-owned executor through the generated HealthClient -> HealthServer in-process; the tape picks which runnable task is polled and whether a lock acquisition yields first, blocked watchers stay pending while later operations run, every watcher is drained at the end; oracle = sequential map model for Check/subscribe and a per-watcher subsequence/convergence/clear rule for Watch.",
   "Engine F interleaves at await points and, through hook H3 (a synchronisation seam in tonic-health, feature verif-hooks), at every acquisition of the status-map lock: in half of the runs the tape makes the acquiring task yield there, so other operations run between one operation's lock acquisitions as under a multi-threaded runtime. Thorough tier adds engine M: 2-4 writers (one may clear; modes 4-5 race on first registration), a checker and a watcher as real threads under Miri's seeded preemptive scheduler (48-96 seeds x 6 workload modes), register-semantics check of every Check, watcher subsequence/convergence/clear rule, plus Miri's data-race/UB detection. Trusted base: tokio RwLock/watch."),
 "C08": ("F+N", "DESIGN.md §7 C08, §13",
   "Seeded exploration (engine F): metadata maps (ASCII/binary, repeated keys, every length mod 3, reserved-name canaries) on requests, responses, trailers and error statuses cross tonic<->tonic over the loopback (wire tap: canaries never on the wire, -bin values are base64 of the original) and tonic<->foreign peer that pads or does not pad base64; the receiver reads through the typed accessors.",
   "Engine N: the same metadata observed on the real wire by raw h2 peers (after HPACK), including padded/unpadded -bin values from a raw client. The accessor clause is a pure function of a map: sampled on every received map, not decided."),
}

NA = {
 "C10": "pure function of (registered service names, request path): no schedule, clock, fault or second party for a simulator to vary (DESIGN.md §8)",
 "C11": "compile-time code generation, a pure function of the service descriptor; nothing to simulate (DESIGN.md §8)",
 "C12": "InterceptedService is synchronous and pure in the request; an input/output relation with no schedule or fault dimension (DESIGN.md §8)",
 "C19": "the reflection index is a pure function of the registered descriptor sets; no clause depends on a schedule (DESIGN.md §8)",
 "C20": "pure protobuf Any packing/unpacking plus the header encoding; no schedule, time, I/O or multi-party behaviour (DESIGN.md §8)",
}
PENDING = {}
for l in open(os.path.join(ROOT, "properties.jsonl")):
    pid = json.loads(l)["id"]
    if pid not in CLAIMED and pid not in NA:
        PENDING[pid] = "not claimed yet: the simulated check planned in DESIGN.md §7 is not built/registered at this commit"

checks = []
for pid, (engine, ref, text, note) in sorted(CLAIMED.items()):
    checks.append({
        "property_id": pid,
        "quick_cmd": f"./check {pid} quick",
        "thorough_cmd": f"./check {pid} thorough",
        "evidence_file": f"/verif/evidence/{pid}.json",
        "replay_cmd_template": f"./check {pid} --replay {{path}}",
        "engine": engine,
        "level_claimed": {"category": "exploration", "text": text, "design_ref": ref},
        "level_note": note,
        "technique": TECH,
    })

man = {
 "version": 1,
 "setup_cmd": "cd /verif/sim && CARGO_NET_OFFLINE=true cargo build --release --offline -p tsim && CARGO_NET_OFFLINE=true cargo build --release --offline -p tsim-tls",
 "hooks": {
   "guard": "cargo feature `verif-hooks` of crates tonic and tonic-health (off by default)",
   "enable": "harness depends on tonic = { path = \"/repo/tonic\", features = [\"verif-hooks\", ...] } and tonic-health = { path = \"/repo/tonic-health\", features = [\"verif-hooks\"] }; harness build also uses RUSTFLAGS --cfg tokio_unstable (harness only, not a source change)",
   "baseline_off_cmd": "cd /repo && cargo nextest run --workspace --no-fail-fast --offline || cargo test --workspace --no-fail-fast --offline",
   "source_commits": ["f73bdaa8", "ef6a77ec", "0a17787d", "391c8a5b"],
   "add_only": True,
 },
 "engines": [
   {"name": "F", "path": "/verif/sim/tsim", "serves_properties": sorted([p for p,(e,_,_,_) in CLAIMED.items() if "F" in e]), "kind_free_text": "frame-level deterministic simulator: own executor, scripted HTTP bodies / message sources / peers, no runtime, no HTTP/2"},
   {"name": "M", "path": "/verif/miri", "serves_properties": ["C18"], "kind_free_text": "Miri many-seeds: real std::thread schedules under a seeded preemptive scheduler with data-race detection (thorough tier)"},
   {"name": "N", "path": "/verif/sim/simnet + /verif/sim/tsim (+ tsim-tls)", "serves_properties": sorted([p for p,(e,_,_,_) in CLAIMED.items() if "N" in e]), "kind_free_text": "net-level deterministic simulator: real tonic/hyper/h2 on a tokio current-thread runtime with paused clock and seeded select!, simulated byte network, scripted connector/listener/peers"},
 ],
 "checks": checks,
 "not_applicable": [{"property_id": k, "reason": v} for k, v in sorted({**NA, **PENDING}.items())],
 "notes": "All checks: exit 0 held / exit 1 + VIOLATION line with a minimised, self-verified replay file / exit 2 harness error. VERIF_SEED selects the batch (default fixed). Known findings: /verif/known_findings.json.",
}
json.dump(man, open(os.path.join(ROOT, "MANIFEST.json"), "w"), indent=1)
print("claimed", sorted(CLAIMED), "na", sorted(NA), "pending", sorted(PENDING))
