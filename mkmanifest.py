#!/usr/bin/env python3
"""Regenerates /verif/MANIFEST.json from the tables below (run by hand after adding a check)."""
import json, os
ROOT = os.path.dirname(os.path.abspath(__file__))

TECH = "deterministic simulation with fault injection: seeded search over schedules/chunkings/fault scripts on a single choice tape, reference-model and independent-decoder oracles, tape minimisation + exact replay"

# id -> (engine, design_ref, level text, level note, thorough?)
CLAIMED = {
 "C07": ("F", "DESIGN.md §7 C07, §3.2",
   "Seeded exploration (engine F): tonic::codec::Streaming is driven poll by poll over simulated bodies carrying mutated/random byte strings in arbitrary chunkings, with injected Pending, body errors of several types, trailers and a silent peer; an independent sequential framing parser is the reference; the stream is polled past its first terminal event. A clean batch is evidence, not proof.",
   "Trusted: the harness's independent frame parser and flate2 write::*/zstd bulk decoders; body scripts are conformant HTTP bodies (nothing after trailers)."),
}

NA = {
 "C10": "pure function of (registered service names, request path): no schedule, clock, fault or second party for a simulator to vary (DESIGN.md §8)",
 "C11": "compile-time code generation, a pure function of the service descriptor; nothing to simulate (DESIGN.md §8)",
 "C12": "InterceptedService is synchronous and pure in the request; an input/output relation with no schedule or fault dimension (DESIGN.md §8)",
 "C19": "the reflection index is a pure function of the registered descriptor sets; no clause depends on a schedule (DESIGN.md §8)",
 "C20": "pure protobuf Any packing/unpacking plus the header encoding; no schedule, time, I/O or multi-party behaviour (DESIGN.md §8)",
}
PENDING = {}
for l in open(os.path.join(ROOT, "properties.jsonl")):
    pid = json.loads(l)["id"]
    if pid not in CLAIMED and pid not in NA:
        PENDING[pid] = "not claimed yet: the simulated check planned in DESIGN.md §7 is not built/registered at this commit"

checks = []
for pid, (engine, ref, text, note) in sorted(CLAIMED.items()):
    checks.append({
        "property_id": pid,
        "quick_cmd": f"./check {pid} quick",
        "thorough_cmd": f"./check {pid} thorough",
        "evidence_file": f"/verif/evidence/{pid}.json",
        "replay_cmd_template": f"./check {pid} --replay {{path}}",
        "engine": engine,
        "level_claimed": {"category": "exploration", "text": text, "design_ref": ref},
        "level_note": note,
        "technique": TECH,
    })

man = {
 "version": 1,
 "setup_cmd": "cd /verif/sim && CARGO_NET_OFFLINE=true cargo build --release --offline -p tsim",
 "hooks": {
   "guard": "cargo feature `verif-hooks` of crate tonic (off by default)",
   "enable": "harness depends on tonic = { path = \"/repo/tonic\", features = [\"verif-hooks\", ...] }; harness build also uses RUSTFLAGS --cfg tokio_unstable (harness only, not a source change)",
   "baseline_off_cmd": "cd /repo && cargo nextest run --workspace --no-fail-fast --offline || cargo test --workspace --no-fail-fast --offline",
   "source_commits": [],
   "add_only": True,
 },
 "engines": [
   {"name": "F", "path": "/verif/sim/tsim", "serves_properties": sorted([p for p,(e,_,_,_) in CLAIMED.items() if "F" in e]), "kind_free_text": "frame-level deterministic simulator: own executor, scripted HTTP bodies / message sources / peers, no runtime, no HTTP/2"},
 ],
 "checks": checks,
 "not_applicable": [{"property_id": k, "reason": v} for k, v in sorted({**NA, **PENDING}.items())],
 "notes": "All checks: exit 0 held / exit 1 + VIOLATION line with a minimised, self-verified replay file / exit 2 harness error. VERIF_SEED selects the batch (default fixed). Known findings: /verif/known_findings.json.",
}
json.dump(man, open(os.path.join(ROOT, "MANIFEST.json"), "w"), indent=1)
print("claimed", sorted(CLAIMED), "na", sorted(NA), "pending", sorted(PENDING))
