//! Harness codec: a message is an opaque byte string.  Buffer settings and an optional
//! "fail to encode this message" marker are read from a thread-local, because generated code
//! constructs codecs with `Default::default()`.  Runs are single-threaded, so a thread-local is a
//! per-run configuration.

use bytes::{Buf, BufMut, Bytes};
use std::cell::Cell;
use tonic::codec::{BufferSettings, Codec, DecodeBuf, Decoder, EncodeBuf, Encoder};
use tonic::Status;

#[derive(Clone, Debug, PartialEq, Eq, Default)]
pub struct RawMsg(pub Bytes);

#[derive(Clone, Copy, Debug)]
pub struct RawCfg {
    pub enc_buffer: usize,
    pub enc_yield: usize,
    pub dec_buffer: usize,
    pub dec_yield: usize,
}

impl Default for RawCfg {
    fn default() -> Self {
        RawCfg {
            enc_buffer: 8 * 1024,
            enc_yield: 32 * 1024,
            dec_buffer: 8 * 1024,
            dec_yield: 32 * 1024,
        }
    }
}

thread_local! {
    static CFG: Cell<RawCfg> = Cell::new(RawCfg::default());
    /// how the codec uses the buffer API: (encoder style, decoder style), see `encode`/`decode`
    static STYLE: Cell<(u8, u8)> = const { Cell::new((0, 0)) };
}

/// Called before every run (simcore run prelude): no per-thread configuration survives a run.
pub fn reset() {
    CFG.with(|x| x.set(RawCfg::default()));
    STYLE.with(|x| x.set((0, 0)));
}

/// Draw how this run's raw codec talks to `EncodeBuf` / `DecodeBuf`: a codec is free to use any
/// part of the `BufMut` / `Buf` API (put_slice, the `io::Write` adaptor, chunk_mut/advance_mut
/// with remaining_mut checks; copy_to_bytes, chunk/advance, the `io::Read` adaptor, copy_to_slice).
pub fn draw_styles(sim: &simcore::Sim) {
    let s = (sim.draw(5) as u8, sim.draw(4) as u8);
    STYLE.with(|x| x.set(s));
}

pub fn set_cfg(c: RawCfg) {
    CFG.with(|x| x.set(c));
}

pub fn cfg() -> RawCfg {
    CFG.with(|x| x.get())
}

#[derive(Clone, Copy, Debug)]
pub struct RawCodec(pub RawCfg);

impl Default for RawCodec {
    fn default() -> Self {
        RawCodec(cfg())
    }
}

pub struct RawEncoder(RawCfg);
pub struct RawDecoder(RawCfg);

impl Codec for RawCodec {
    type Encode = RawMsg;
    type Decode = RawMsg;
    type Encoder = RawEncoder;
    type Decoder = RawDecoder;
    fn encoder(&mut self) -> RawEncoder {
        RawEncoder(self.0)
    }
    fn decoder(&mut self) -> RawDecoder {
        RawDecoder(self.0)
    }
}

impl Encoder for RawEncoder {
    type Item = RawMsg;
    type Error = Status;
    fn encode(&mut self, item: RawMsg, dst: &mut EncodeBuf<'_>) -> Result<(), Status> {
        match STYLE.with(|x| x.get()).0 {
            1 => {
                // the std::io::Write adaptor (what e.g. serde_json::to_writer uses)
                use std::io::Write;
                dst.writer().write_all(&item.0).map_err(|e| Status::internal(format!("raw codec: {e}")))?;
            }
            2 => {
                // piecewise through chunk_mut/advance_mut, asking for room first
                let mut rest: &[u8] = &item.0;
                while !rest.is_empty() {
                    if !dst.has_remaining_mut() {
                        return Err(Status::internal("raw codec: the encode buffer reports no room"));
                    }
                    let c = dst.chunk_mut();
                    let n = c.len().min(rest.len()).min(dst.remaining_mut());
                    if n == 0 {
                        return Err(Status::internal("raw codec: the encode buffer offers an empty chunk"));
                    }
                    dst.chunk_mut()[..n].copy_from_slice(&rest[..n]);
                    unsafe { dst.advance_mut(n) };
                    rest = &rest[n..];
                }
            }
            3 => dst.put_slice(&item.0), // no reserve: a BufMut grows on demand
            4 => {
                // `BufMut::put` of a multi-chunk source (a rope of two halves)
                let mid = item.0.len() / 2;
                let (a, b) = (item.0.slice(..mid), item.0.slice(mid..));
                dst.put(a.chain(b));
            }
            _ => {
                dst.reserve(item.0.len());
                dst.put_slice(&item.0);
            }
        }
        Ok(())
    }
    fn buffer_settings(&self) -> BufferSettings {
        BufferSettings::new(self.0.enc_buffer, self.0.enc_yield)
    }
}

impl Decoder for RawDecoder {
    type Item = RawMsg;
    type Error = Status;
    fn decode(&mut self, src: &mut DecodeBuf<'_>) -> Result<Option<RawMsg>, Status> {
        let n = src.remaining();
        match STYLE.with(|x| x.get()).1 {
            1 => {
                let mut v = Vec::with_capacity(n);
                while src.has_remaining() {
                    let c = src.chunk();
                    if c.is_empty() {
                        return Err(Status::internal("raw codec: the decode buffer has bytes remaining but offers an empty chunk"));
                    }
                    let k = c.len();
                    v.extend_from_slice(c);
                    src.advance(k);
                }
                Ok(Some(RawMsg(Bytes::from(v))))
            }
            2 => {
                use std::io::Read;
                let mut v = Vec::new();
                src.reader().read_to_end(&mut v).map_err(|e| Status::internal(format!("raw codec: {e}")))?;
                Ok(Some(RawMsg(Bytes::from(v))))
            }
            3 => {
                let mut v = vec![0u8; n];
                src.copy_to_slice(&mut v);
                Ok(Some(RawMsg(Bytes::from(v))))
            }
            _ => Ok(Some(RawMsg(src.copy_to_bytes(n)))),
        }
    }
    fn buffer_settings(&self) -> BufferSettings {
        BufferSettings::new(self.0.dec_buffer, self.0.dec_yield)
    }
}
