//! Harness codec: a message is an opaque byte string.  Buffer settings and an optional
//! "fail to encode this message" marker are read from a thread-local, because generated code
//! constructs codecs with `Default::default()`.  Runs are single-threaded, so a thread-local is a
//! per-run configuration.

use bytes::{Buf, BufMut, Bytes};
use std::cell::Cell;
use tonic::codec::{BufferSettings, Codec, DecodeBuf, Decoder, EncodeBuf, Encoder};
use tonic::Status;

#[derive(Clone, Debug, PartialEq, Eq, Default)]
pub struct RawMsg(pub Bytes);

#[derive(Clone, Copy, Debug)]
pub struct RawCfg {
    pub enc_buffer: usize,
    pub enc_yield: usize,
    pub dec_buffer: usize,
    pub dec_yield: usize,
}

impl Default for RawCfg {
    fn default() -> Self {
        RawCfg {
            enc_buffer: 8 * 1024,
            enc_yield: 32 * 1024,
            dec_buffer: 8 * 1024,
            dec_yield: 32 * 1024,
        }
    }
}

thread_local! {
    static CFG: Cell<RawCfg> = Cell::new(RawCfg::default());
}

pub fn set_cfg(c: RawCfg) {
    CFG.with(|x| x.set(c));
}

pub fn cfg() -> RawCfg {
    CFG.with(|x| x.get())
}

#[derive(Clone, Copy, Debug)]
pub struct RawCodec(pub RawCfg);

impl Default for RawCodec {
    fn default() -> Self {
        RawCodec(cfg())
    }
}

pub struct RawEncoder(RawCfg);
pub struct RawDecoder(RawCfg);

impl Codec for RawCodec {
    type Encode = RawMsg;
    type Decode = RawMsg;
    type Encoder = RawEncoder;
    type Decoder = RawDecoder;
    fn encoder(&mut self) -> RawEncoder {
        RawEncoder(self.0)
    }
    fn decoder(&mut self) -> RawDecoder {
        RawDecoder(self.0)
    }
}

impl Encoder for RawEncoder {
    type Item = RawMsg;
    type Error = Status;
    fn encode(&mut self, item: RawMsg, dst: &mut EncodeBuf<'_>) -> Result<(), Status> {
        dst.reserve(item.0.len());
        dst.put_slice(&item.0);
        Ok(())
    }
    fn buffer_settings(&self) -> BufferSettings {
        BufferSettings::new(self.0.enc_buffer, self.0.enc_yield)
    }
}

impl Decoder for RawDecoder {
    type Item = RawMsg;
    type Error = Status;
    fn decode(&mut self, src: &mut DecodeBuf<'_>) -> Result<Option<RawMsg>, Status> {
        let n = src.remaining();
        Ok(Some(RawMsg(src.copy_to_bytes(n))))
    }
    fn buffer_settings(&self) -> BufferSettings {
        BufferSettings::new(self.0.dec_buffer, self.0.dec_yield)
    }
}
