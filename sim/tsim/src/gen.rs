//! Workload generators shared by the call-level scenarios: metadata, statuses, messages.

use simcore::Sim;
use tonic::metadata::{AsciiMetadataKey, AsciiMetadataValue, BinaryMetadataKey, BinaryMetadataValue, KeyAndValueRef, MetadataMap};
use tonic::{Code, Status};

#[derive(Clone, Debug, PartialEq, Eq)]
pub struct MdEntry {
    pub key: String,
    pub bin: bool,
    pub val: Vec<u8>,
    /// entry under a protocol-reserved name carrying a canary (must never reach the wire)
    pub reserved: bool,
    /// how the key is spelled when it is handed to `MetadataKey::from_bytes` (names are
    /// case-insensitive and stored lower-cased): 0 as is, 1 UPPER, 2 Capitalised-Words
    pub key_case: u8,
    /// attached with a *replacing* API (`insert`, `OccupiedEntry::insert`): every earlier value
    /// of the key is gone
    pub replace: bool,
    /// an earlier value of a key that a later replacing entry removed again (still attached in
    /// its turn, never expected to arrive)
    pub superseded: bool,
}

impl MdEntry {
    /// expected to reach the peer
    pub fn expected(&self) -> bool {
        !self.reserved && !self.superseded
    }
}

pub fn spell(key: &str, key_case: u8) -> String {
    match key_case {
        0 => key.to_string(),
        1 => key.to_ascii_uppercase(),
        _ => {
            let mut up = true;
            key.chars()
                .map(|c| {
                    let o = if up { c.to_ascii_uppercase() } else { c };
                    up = c == '-';
                    o
                })
                .collect()
        }
    }
}

pub const RESERVED: [&str; 6] = ["te", "user-agent", "content-type", "grpc-status", "grpc-message", "grpc-message-type"];
pub const CANARY: &str = "CANARY";

const KEY_POOL: [&str; 14] = ["a", "x-id", "trace.id", "k_1", "bin", "xbin", "a-bin-b", "bin-", "z9", "x-bin-x", "authorization", "x-request-id", "my-key", "q"];
const BIN_POOL: [&str; 7] = ["a-bin", "x-bin", "-bin", "trace-bin", "k_1-bin", "bin-bin", "z.9-bin"];

fn rand_key(sim: &Sim) -> String {
    const CH: &[u8] = b"abcdefghijklmnopqrstuvwxyz0123456789-_.";
    let n = sim.range(1, 10);
    let mut s = String::from("x");
    for _ in 0..n {
        s.push(CH[sim.draw(CH.len() as u64) as usize] as char);
    }
    if s.ends_with("-bin") {
        s.push('x');
    }
    s
}

fn ascii_value(sim: &Sim) -> Vec<u8> {
    let n = sim.range(1, 24) as usize;
    let mut v: Vec<u8> = (0..n).map(|_| sim.range(0x20, 0x7e) as u8).collect();
    // RFC 9113 asks senders not to start or end a field value with whitespace; most values obey,
    // some (1 in 8) do not: http's HeaderValue, hyper and h2 carry them unchanged, and what the
    // application attached is what must arrive
    if sim.chance(7, 8) {
        if v[0] == b' ' {
            v[0] = b'_';
        }
        let l = v.len() - 1;
        if v[l] == b' ' {
            v[l] = b'_';
        }
    } else {
        match sim.draw(3) {
            0 => v.insert(0, b' '),
            1 => v.push(b' '),
            _ => {
                v.insert(0, b'\t');
                v.push(b' ');
            }
        }
    }
    v
}

/// User metadata: ASCII and binary entries, repeated keys, optionally entries under reserved names.
pub fn gen_md(sim: &Sim, max: u64, with_reserved: bool) -> Vec<MdEntry> {
    let n = sim.range(0, max);
    let mut out: Vec<MdEntry> = vec![];
    for i in 0..n {
        let repeat = !out.is_empty() && sim.chance(1, 4);
        if repeat {
            let prev = out[sim.draw(out.len() as u64) as usize].clone();
            if !prev.reserved {
                let val = if prev.bin { sim.bytes(sim.range(0, 40) as usize) } else { ascii_value(sim) };
                // entries that go through tonic's own map API may also *replace* what the key held
                let replace = with_reserved && sim.chance(1, 4);
                if replace {
                    for e in out.iter_mut().filter(|e| e.key == prev.key && !e.reserved) {
                        e.superseded = true;
                    }
                }
                out.push(MdEntry { key: prev.key, bin: prev.bin, val, reserved: false, key_case: sim.weighted(&[6, 1, 1]) as u8, replace, superseded: false });
                continue;
            }
        }
        if with_reserved && sim.chance(1, 6) {
            let key = sim.pick(&RESERVED).to_string();
            out.push(MdEntry { key, bin: false, val: format!("{CANARY}-{i}").into_bytes(), reserved: true, key_case: 0, replace: false, superseded: false });
            continue;
        }
        if sim.chance(2, 5) {
            let key = if sim.chance(1, 2) { sim.pick(&BIN_POOL).to_string() } else { format!("{}-bin", rand_key(sim)) };
            // every length mod 3, incl. 0; opaque bytes
            let len = sim.range(0, 40) as usize;
            let val = if len > 0 && sim.chance(1, 3) { (0..len).map(|_| sim.draw(256) as u8).collect() } else { sim.bytes(len) };
            out.push(MdEntry { key, bin: true, val, reserved: false, key_case: sim.weighted(&[6, 1, 1]) as u8, replace: false, superseded: false });
        } else {
            let key = if sim.chance(1, 2) { sim.pick(&KEY_POOL).to_string() } else { rand_key(sim) };
            out.push(MdEntry { key, bin: false, val: ascii_value(sim), reserved: false, key_case: sim.weighted(&[6, 1, 1]) as u8, replace: false, superseded: false });
        }
    }
    out
}

fn key_abort(class: &str, detail: String) -> ! {
    std::panic::panic_any(simcore::SimAbort { class: class.into(), detail })
}

pub fn apply_md(map: &mut MetadataMap, entries: &[MdEntry]) {
    for e in entries {
        let spelled = spell(&e.key, e.key_case);
        if e.bin {
            // a name ending in "-bin" in any spelling is a binary key and only that
            let k = match BinaryMetadataKey::from_bytes(spelled.as_bytes()) {
                Ok(k) => k,
                Err(_) => key_abort("C08/binary-key-rejected", format!("BinaryMetadataKey::from_bytes({spelled:?}) is refused although the name ends in -bin")),
            };
            if k.as_str() != e.key {
                key_abort("C08/key-not-normalised", format!("BinaryMetadataKey::from_bytes({spelled:?}) is stored as {:?}", k.as_str()));
            }
            if AsciiMetadataKey::from_bytes(spelled.as_bytes()).is_ok() {
                key_abort("C08/ascii-key-accepts-bin-suffix", format!("AsciiMetadataKey::from_bytes({spelled:?}) is accepted: an ASCII entry could be stored under a binary name"));
            }
            // the attaching API varies with the entry (append / insert for a first occurrence /
            // the entry API): all of them "attach" an entry
            let first = !map.contains_key(e.key.as_str());
            let v = BinaryMetadataValue::from_bytes(&e.val);
            if e.replace {
                // replace every value the key holds: `insert_bin`, or the entry API's `insert`
                if e.val.len() % 2 == 0 {
                    map.insert_bin(k, v);
                } else {
                    match map.entry_bin(k) {
                        Ok(tonic::metadata::Entry::Occupied(mut slot)) => {
                            slot.insert(v);
                        }
                        Ok(tonic::metadata::Entry::Vacant(slot)) => {
                            slot.insert(v);
                        }
                        Err(_) => key_abort("C08/binary-key-rejected", format!("entry_bin({spelled:?}) refuses a valid binary key")),
                    }
                }
                continue;
            }
            match (e.val.len() + e.key.len()) % 3 {
                1 if first => {
                    map.insert_bin(k, v);
                }
                2 => match map.entry_bin(k) {
                    Ok(tonic::metadata::Entry::Vacant(slot)) => {
                        slot.insert(v);
                    }
                    Ok(tonic::metadata::Entry::Occupied(mut slot)) => slot.append(v),
                    Err(_) => key_abort("C08/binary-key-rejected", format!("entry_bin({spelled:?}) refuses a valid binary key")),
                },
                _ => {
                    map.append_bin(k, v);
                }
            }
        } else {
            let k = match AsciiMetadataKey::from_bytes(spelled.as_bytes()) {
                Ok(k) => k,
                Err(_) => key_abort("C08/ascii-key-rejected", format!("AsciiMetadataKey::from_bytes({spelled:?}) is refused")),
            };
            if k.as_str() != e.key {
                key_abort("C08/key-not-normalised", format!("AsciiMetadataKey::from_bytes({spelled:?}) is stored as {:?}", k.as_str()));
            }
            // the value is built through one of the public constructors (they all take the bytes as they are)
            let as_str = std::str::from_utf8(&e.val).expect("harness: ascii value");
            let v: AsciiMetadataValue = match (e.val.len() * 7 + e.key.len()) % 4 {
                0 => AsciiMetadataValue::try_from(&e.val[..]).expect("harness: ascii value"),
                1 => as_str.parse().expect("harness: ascii value"),
                2 => AsciiMetadataValue::try_from(as_str.to_string()).expect("harness: ascii value"),
                _ => AsciiMetadataValue::try_from(as_str).expect("harness: ascii value"),
            };
            if v.as_bytes() != &e.val[..] {
                key_abort("C08/value-constructor-alters-value", format!("an ASCII metadata value built from {:?} holds {:?}", String::from_utf8_lossy(&e.val), String::from_utf8_lossy(v.as_bytes())));
            }
            let first = !map.contains_key(e.key.as_str());
            if e.replace {
                if e.val.len() % 2 == 0 {
                    map.insert(k, v);
                } else {
                    match map.entry(k) {
                        Ok(tonic::metadata::Entry::Occupied(mut slot)) => {
                            slot.insert(v);
                        }
                        Ok(tonic::metadata::Entry::Vacant(slot)) => {
                            slot.insert(v);
                        }
                        Err(_) => key_abort("C08/ascii-key-rejected", format!("entry({spelled:?}) refuses a valid ASCII key")),
                    }
                }
                continue;
            }
            match (e.val.len() + e.key.len()) % 3 {
                1 if first => {
                    map.insert(k, v);
                }
                2 => match map.entry(k) {
                    Ok(tonic::metadata::Entry::Vacant(slot)) => {
                        slot.insert(v);
                    }
                    Ok(tonic::metadata::Entry::Occupied(mut slot)) => slot.append(v),
                    Err(_) => key_abort("C08/ascii-key-rejected", format!("entry({spelled:?}) refuses a valid ASCII key")),
                },
                _ => {
                    map.append(k, v);
                }
            }
        }
    }
}

pub fn md_summary(entries: &[MdEntry]) -> String {
    let mut s = String::from("{");
    for e in entries {
        s.push_str(&format!("{}{}={} ", e.key, if e.reserved { "(reserved)" } else if e.superseded { "(replaced later)" } else if e.replace { "(replaces)" } else { "" }, if e.bin { format!("bin[{}]", e.val.len()) } else { String::from_utf8_lossy(&e.val).into_owned() }));
    }
    s.push('}');
    s
}

/// C08 receiving-side oracle: every non-reserved entry attached by the sender is present under the
/// same key with the same values in the same order, read through the typed accessors; iterators
/// classify entries by the key suffix.
pub fn check_md_received(sim: &Sim, who: &str, expected: &[MdEntry], got: &MetadataMap) {
    let mut keys: Vec<(&str, bool)> = vec![];
    for e in expected.iter().filter(|e| e.expected()) {
        if !keys.contains(&(e.key.as_str(), e.bin)) {
            keys.push((e.key.as_str(), e.bin));
        }
    }
    for (key, bin) in keys {
        let want: Vec<&Vec<u8>> = expected.iter().filter(|e| e.expected() && e.key == key).map(|e| &e.val).collect();
        if bin {
            let have: Vec<Result<Vec<u8>, ()>> = got.get_all_bin(key).iter().map(|v| v.to_bytes().map(|b| b.to_vec()).map_err(|_| ())).collect();
            let ok = have.len() == want.len() && have.iter().zip(want.iter()).all(|(h, w)| h.as_ref().ok() == Some(*w));
            if !ok {
                sim.violation("C08/binary-metadata-not-preserved", format!("{who}: key {key:?}: sent {} values {:?}, received {:?}", want.len(), want, have));
            }
            if got.get(key).is_some() || got.get_all(key).iter().next().is_some() {
                sim.violation("C08/binary-entry-presented-as-ascii", format!("{who}: ASCII accessor returned a value for binary key {key:?}"));
            }
            // the values of a key can be walked from either end: same values, opposite order
            let fwd: Vec<Vec<u8>> = got.get_all_bin(key).iter().map(|v| v.as_encoded_bytes().to_vec()).collect();
            let mut back: Vec<Vec<u8>> = got.get_all_bin(key).iter().rev().map(|v| v.as_encoded_bytes().to_vec()).collect();
            back.reverse();
            if fwd != back {
                sim.violation("C08/values-differ-when-walked-backwards", format!("{who}: key {key:?}: {} values forwards, walked from the back they come out differently", fwd.len()));
            }
            if let (Some(first), Some(w)) = (got.get_bin(key), want.first()) {
                if first.to_bytes().ok().map(|b| b.to_vec()).as_ref() != Some(*w) {
                    sim.violation("C08/binary-metadata-not-preserved", format!("{who}: get_bin({key:?}) is not the first value sent"));
                }
            }
        } else {
            let have: Vec<Vec<u8>> = got.get_all(key).iter().map(|v| v.as_bytes().to_vec()).collect();
            let ok = have.len() == want.len() && have.iter().zip(want.iter()).all(|(h, w)| h == *w);
            if !ok {
                sim.violation(
                    "C08/ascii-metadata-not-preserved",
                    format!("{who}: key {key:?}: sent {:?}, received {:?}", want.iter().map(|w| String::from_utf8_lossy(w).into_owned()).collect::<Vec<_>>(), have.iter().map(|w| String::from_utf8_lossy(w).into_owned()).collect::<Vec<_>>()),
                );
            }
            if got.get_bin(key).is_some() || got.get_all_bin(key).iter().next().is_some() {
                sim.violation("C08/ascii-entry-presented-as-binary", format!("{who}: binary accessor returned a value for ASCII key {key:?}"));
            }
            let mut back: Vec<Vec<u8>> = got.get_all(key).iter().rev().map(|v| v.as_bytes().to_vec()).collect();
            back.reverse();
            if have != back {
                sim.violation("C08/values-differ-when-walked-backwards", format!("{who}: key {key:?}: {} values forwards, walked from the back they come out differently", have.len()));
            }
        }
    }
    // iterator classification (accessor clause, sampled): keys(), values(), iter()
    for k in got.keys() {
        match k {
            tonic::metadata::KeyRef::Ascii(k) if k.as_str().ends_with("-bin") => sim.violation("C08/binary-entry-presented-as-ascii", format!("{who}: keys() yields {:?} as ASCII", k.as_str())),
            tonic::metadata::KeyRef::Binary(k) if !k.as_str().ends_with("-bin") => sim.violation("C08/ascii-entry-presented-as-binary", format!("{who}: keys() yields {:?} as binary", k.as_str())),
            _ => {}
        }
    }
    {
        let (mut va, mut vb) = (0usize, 0usize);
        for v in got.values() {
            match v {
                tonic::metadata::ValueRef::Ascii(_) => va += 1,
                tonic::metadata::ValueRef::Binary(_) => vb += 1,
            }
        }
        let (mut ia, mut ib) = (0usize, 0usize);
        for kv in got.iter() {
            match kv {
                KeyAndValueRef::Ascii(..) => ia += 1,
                KeyAndValueRef::Binary(..) => ib += 1,
            }
        }
        if (va, vb) != (ia, ib) {
            sim.violation("C08/iterators-disagree-on-entry-kinds", format!("{who}: values() sees {va} ASCII / {vb} binary values, iter() sees {ia} / {ib}"));
        }
    }
    for kv in got.iter() {
        match kv {
            KeyAndValueRef::Ascii(k, _) => {
                if k.as_str().ends_with("-bin") {
                    sim.violation("C08/binary-entry-presented-as-ascii", format!("{who}: iter() yields key {:?} as ASCII", k.as_str()));
                }
            }
            KeyAndValueRef::Binary(k, _) => {
                if !k.as_str().ends_with("-bin") {
                    sim.violation("C08/ascii-entry-presented-as-binary", format!("{who}: iter() yields key {:?} as binary", k.as_str()));
                }
            }
        }
    }
}

#[derive(Clone, Debug)]
pub struct StatusSpec {
    pub code: Code,
    pub msg: String,
    pub details: Vec<u8>,
    pub md: Vec<MdEntry>,
}

pub fn gen_message_text(sim: &Sim) -> String {
    const POOL: &[&str] = &["a", "Z", " ", "%", "%4", "%zz", "\n", "\r", "\t", "\0", "é", "ü", "中", "😀", "\u{7f}", "\u{80}", "~", "+", "/", "=", "error", ": ", "\u{feff}"];
    let n = sim.weighted(&[2, 3, 3, 1]);
    let n = match n {
        0 => 0,
        1 => sim.range(1, 4),
        2 => sim.range(4, 20),
        _ => sim.range(20, 60),
    };
    let mut s = String::new();
    for _ in 0..n {
        if sim.chance(1, 4) {
            // any single ASCII character (every member of the percent-encoding set and its complement)
            s.push(sim.range(0, 0x7f) as u8 as char);
        } else {
            s.push_str(sim.pick(POOL));
        }
    }
    s
}

pub fn gen_status(sim: &Sim, with_reserved: bool) -> StatusSpec {
    StatusSpec {
        code: Code::from_i32(sim.range(1, 16) as i32),
        msg: gen_message_text(sim),
        details: if sim.chance(1, 2) { sim.bytes(sim.range(1, 60) as usize) } else { vec![] },
        md: if sim.chance(1, 2) { gen_md(sim, 4, with_reserved) } else { vec![] },
    }
}

impl StatusSpec {
    pub fn build(&self) -> Status {
        let mut md = MetadataMap::new();
        apply_md(&mut md, &self.md);
        Status::with_details_and_metadata(self.code, self.msg.clone(), bytes::Bytes::from(self.details.clone()), md)
    }
    pub fn summary(&self) -> String {
        format!("Status({:?}, {:?}, details {}B, md {})", self.code, self.msg, self.details.len(), md_summary(&self.md))
    }
}

/// C02/C04 oracle: the status the caller observes carries the handler's code, message, details and
/// every metadata entry it attached.
pub fn check_status_received(sim: &Sim, who: &str, want: &StatusSpec, got: &Status) {
    if got.code() != want.code {
        sim.violation("C02/status-code-differs", format!("{who}: handler ended with {:?}, caller sees {:?} ({:?})", want.code, got.code(), got.message()));
    }
    if got.message() != want.msg {
        sim.violation("C02/status-message-differs", format!("{who}: handler message {:?}, caller sees {:?}", want.msg, got.message()));
    }
    if got.details() != &want.details[..] {
        sim.violation("C02/status-details-differ", format!("{who}: handler details {}B, caller sees {}B", want.details.len(), got.details().len()));
    }
    check_md_received(sim, who, &want.md, got.metadata());
    // the three status fields are the status itself: none of them is left behind as "custom metadata"
    for k in ["grpc-status", "grpc-message", "grpc-status-details-bin"] {
        if got.metadata().clone().into_headers().contains_key(k) {
            sim.violation("C04/status-field-left-in-metadata", format!("{who}: the status read back carries {k:?} among its custom metadata"));
        }
    }
}

/// First non-reserved key whose received values (through the typed accessors) differ from what
/// was attached, if any.
pub fn md_mismatch(expected: &[MdEntry], got: &MetadataMap) -> Option<String> {
    let mut keys: Vec<(&str, bool)> = vec![];
    for e in expected.iter().filter(|e| e.expected()) {
        if !keys.contains(&(e.key.as_str(), e.bin)) {
            keys.push((e.key.as_str(), e.bin));
        }
    }
    for (key, bin) in keys {
        let want: Vec<&Vec<u8>> = expected.iter().filter(|e| e.expected() && e.key == key).map(|e| &e.val).collect();
        let have: Vec<Option<Vec<u8>>> = if bin { got.get_all_bin(key).iter().map(|v| v.to_bytes().ok().map(|b| b.to_vec())).collect() } else { got.get_all(key).iter().map(|v| Some(v.as_bytes().to_vec())).collect() };
        if have.len() != want.len() || have.iter().zip(want.iter()).any(|(h, w)| h.as_ref() != Some(*w)) {
            return Some(format!("key {key:?}: attached {} value(s), received {}", want.len(), have.len()));
        }
    }
    None
}
