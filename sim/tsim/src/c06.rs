//! C06 — message size limits are enforced exactly and without collateral loss.  Engine F.
//! Decode side: `Streaming` with a limit, frames whose wire length sits around the limit, and
//! declared lengths with no payload behind them (peer silent).  Encode side: `EncodeBody` with a
//! limit, an oversized message at any position of a stream whose earlier messages may or may not
//! still sit in the encoder's buffer (decided by source readiness and the yield threshold).

use crate::c01::{encode_body, Role};
use crate::c03;
use crate::fdrive::{check_terminal, drain_stream, show, FrameObs, SEv};
use crate::indep::{self, Enc};
use crate::rawcodec::{RawCfg, RawCodec, RawMsg};
use crate::seams::{cut_bytes, Ev, Segmented, SimBody};
use bytes::{BufMut, Bytes};
use http::StatusCode;
use simcore::Sim;
use tonic::codec::{BufferSettings, Codec, EncodeBuf, Encoder, Streaming};
use tonic::{Code, Status};

const DEFAULT_DEC_LIMIT: usize = 4 * 1024 * 1024;

fn small_sizes(sim: &Sim, n: u64, cap: usize) -> Vec<usize> {
    (0..n).map(|_| sim.range(0, cap.min(64) as u64) as usize).collect()
}

pub fn run_decode(sim: &Sim, _idx: u64) {
    let enc: Option<Enc> = if sim.chance(1, 3) { Some(sim.pick(&indep::ALL_ENC)) } else { None };
    let response = sim.chance(1, 2);
    let dec_buffer = sim.pick(&[1usize, 64, 8192]);
    // ---- the probe frame ----
    let kind = sim.weighted(&[6, 3, 1]); // materialised payload / declared only / around the 4 MiB default
    let mut probe_ser: Option<Vec<u8>> = None; // what the probe must decode to, when it is accepted
    let (probe_frame, w, declared_only): (Vec<u8>, usize, bool) = match kind {
        0 => {
            let ser = match sim.draw(3) {
                0 => vec![0u8; sim.range(0, 20_000) as usize], // compresses to almost nothing
                _ => sim.bytes(sim.pick(&[0usize, 1, 2, 5, 6, 99, 100, 101, 1000, 1001, 65_535, 65_536, 65_537])),
            };
            probe_ser = Some(ser.clone());
            let (flag, payload) = match enc {
                Some(e) if sim.chance(2, 3) => (1u8, indep::compress(e, &ser)),
                _ => (0u8, ser),
            };
            (indep::frame(flag, &payload), payload.len(), false)
        }
        1 => {
            let d = sim.pick(&[1u32, 6, 101, 1 << 20, 1 << 24, (1 << 22) + 1, u32::MAX]);
            let mut f = vec![0u8];
            f.extend_from_slice(&d.to_be_bytes());
            // sometimes a few payload bytes do arrive
            f.extend(vec![7u8; sim.range(0, 3) as usize]);
            sim.probe("declared-length-without-payload");
            (f, d as usize, true)
        }
        _ => {
            let w = sim.pick(&[DEFAULT_DEC_LIMIT - 1, DEFAULT_DEC_LIMIT, DEFAULT_DEC_LIMIT + 1]);
            probe_ser = Some(vec![0u8; w]);
            (indep::frame(0, &vec![0u8; w]), w, false)
        }
    };
    // ---- the limit, chosen relative to the wire length ----
    let limit: Option<usize> = if kind == 2 {
        None
    } else {
        match sim.weighted(&[3, 3, 3, 3, 1]) {
            0 if w > 0 => Some(w - 1),
            1 => Some(w),
            2 if w < usize::MAX => Some(w + 1),
            3 => Some(sim.pick(&[0usize, 1, 5, 100, 1000, 65_536])),
            _ => None,
        }
    };
    let lim = limit.unwrap_or(DEFAULT_DEC_LIMIT);
    let accept = w <= lim;
    if w == lim {
        sim.probe("limit-exactly-hit");
    }
    // ---- small messages before and after ----
    let nb = sim.range(0, 3);
    let before = small_sizes(sim, nb, lim);
    let na = sim.range(0, 2);
    let after = small_sizes(sim, na, lim);
    let mut data = vec![];
    let mut starts = vec![];
    let mut expect: Vec<Vec<u8>> = vec![];
    for s in &before {
        let m = sim.bytes(*s);
        starts.push(data.len());
        data.extend(indep::frame(0, &m));
        expect.push(m);
    }
    starts.push(data.len());
    let probe_at = data.len();
    data.extend(&probe_frame);
    let mut after_msgs = vec![];
    if !declared_only {
        for s in &after {
            let m = sim.bytes(*s);
            starts.push(data.len());
            data.extend(indep::frame(0, &m));
            after_msgs.push(m);
        }
    }
    let chunks = cut_bytes(sim, &data, &starts);
    let mut evs: Vec<Ev> = chunks.into_iter().map(Ev::Data).collect();
    let stall = declared_only && sim.chance(1, 2);
    if stall {
        evs.push(Ev::Stall);
        sim.fault("peer-silent-after-prefix");
    }
    sim.nontrivial();
    sim.sample(|| format!("decode: enc={enc:?} response={response} limit={limit:?} wire_len={w} declared_only={declared_only} stall={stall} before={before:?} after={after:?} accept={accept}"));
    sim.ev(|| format!("config decode: enc={enc:?} response={response} limit={limit:?} wire_len={w} declared_only={declared_only} stall={stall} before={before:?} after={after:?} probe_at={probe_at} accept={accept}"));
    // the announced body length (content-length) is peer-supplied too: it must not make the
    // decoder reserve memory either
    let hint = match sim.weighted(&[3, 1, 1]) {
        0 => crate::seams::SizeHint::Unknown,
        1 => crate::seams::SizeHint::ExactTrue,
        _ => crate::seams::SizeHint::Announced(sim.pick(&[1u64 << 30, 1 << 31])),
    };
    let body = Segmented::new(SimBody::new(sim, "in", evs, sim.pick(&[0u64, 30]), sim.chance(1, 4)).with_size_hint(hint));
    crate::rawcodec::draw_styles(sim);
    let dec = RawCodec(RawCfg { dec_buffer, ..RawCfg::default() }).decoder();
    let tenc = enc.map(|e| e.tonic());
    crate::alloc::mark();
    let mut s = if response { Streaming::new_response(dec, body, StatusCode::OK, tenc, limit) } else { Streaming::new_request(dec, body, tenc, limit) };
    let observed = drain_stream(sim, &mut s, &|m: &RawMsg| m.0.to_vec(), 2, 64);
    let max_alloc = crate::alloc::max_single_since_mark();
    if let crate::seams::SizeHint::Announced(n) = hint {
        sim.probe("body-length-announced-up-front");
        // (a limit that itself admits such a message makes a reservation of that size legitimate)
        if max_alloc >= (1 << 29) && (max_alloc as u128) > (lim as u128) + (1 << 20) {
            sim.violation("C06/memory-reserved-from-announced-body-length", format!("the body announced {n} bytes up front (nothing of it is bounded by the decoding limit {lim}); a single allocation of {max_alloc} bytes was made"));
        }
    }

    for (class, detail) in check_terminal(&observed, "") {
        sim.violation(&format!("C06/{class}"), detail);
    }
    let items: Vec<&Vec<u8>> = observed.iter().take_while(|e| matches!(e, SEv::Item(_))).map(|e| if let SEv::Item(b) = e { b } else { unreachable!() }).collect();
    let next = observed.get(items.len());
    // earlier messages must come through either way
    if items.len() < expect.len() || items.iter().zip(expect.iter()).any(|(a, b)| *a != b) {
        sim.violation("C06/messages-before-the-probe-not-delivered", format!("expected {} messages before the probe frame, history {}", expect.len(), show(&observed)));
        return;
    }
    if accept && !declared_only {
        // accepted iff within the limit: the probe and everything after it is delivered
        let want = expect.len() + 1 + after_msgs.len();
        if items.len() != want || !matches!(next, Some(SEv::End)) {
            sim.violation(
                "C06/message-within-limit-refused",
                format!("wire length {w} <= limit {lim}, but history is {} (expected {want} items then end)", show(&observed)),
            );
        } else {
            // ... unchanged: the limit is on the wire length, so a compressed message within it is
            // delivered whole however large it inflates; the messages after it too
            let got_probe = items[expect.len()];
            if let Some(ps) = &probe_ser {
                if got_probe != ps {
                    sim.violation("C06/accepted-message-altered", format!("wire length {w} <= limit {lim}: the message decodes to {} bytes, the accepted item has {} bytes (enc {enc:?})", ps.len(), got_probe.len()));
                } else if ps.len() > lim {
                    sim.probe("accepted-message-inflates-beyond-limit");
                }
            }
            if items[expect.len() + 1..].iter().zip(after_msgs.iter()).any(|(a, b)| *a != b) {
                sim.violation("C06/messages-after-the-probe-altered", format!("history {}", show(&observed)));
            }
        }
    } else if !accept {
        if items.len() > expect.len() {
            sim.violation("C06/oversized-message-accepted", format!("wire length {w} > limit {lim} but an item was yielded for it; history {}", show(&observed)));
        } else {
            match next {
                Some(SEv::Err(Code::OutOfRange, _)) => {
                    if declared_only {
                        sim.probe("refused-without-payload");
                    }
                }
                Some(SEv::Stalled) => sim.violation(
                    "C06/oversized-not-refused-at-prefix",
                    format!("declared length {w} > limit {lim}: the stream waits for the payload instead of refusing as soon as the prefix was read; history {}", show(&observed)),
                ),
                other => sim.violation("C06/oversized-wrong-outcome", format!("wire length {w} > limit {lim}: expected OUT_OF_RANGE, got {:?}; history {}", other.map(|e| e.short()), show(&observed))),
            }
        }
        if w >= (1 << 20) && lim <= 65_536 {
            sim.probe("allocation-watched");
            if max_alloc >= (1 << 20) {
                sim.violation("C06/memory-reserved-for-refused-message", format!("declared length {w}, limit {lim}: a single allocation of {max_alloc} bytes was made while refusing it"));
            }
        }
    } else {
        // declared-only frame within the limit: the payload never arrives; not an error of the SUT
        // to wait (stall) or to report EOF
    }
}

/// Encoder whose output for an item is `len` bytes; marker items "reserve and advance without
/// touching" for the >4 GiB probe.
pub struct LenEncoder {
    pub settings: BufferSettings,
}

#[derive(Clone, Debug)]
pub enum LenItem {
    Bytes(Vec<u8>),
    Untouched(usize),
    /// the encoder writes `partial` bytes of this message and then fails (a codec whose
    /// serialization can fail: a value out of the schema's range, an io error of a writer)
    Fail { partial: usize, code: Code },
}

impl Encoder for LenEncoder {
    type Item = LenItem;
    type Error = Status;
    fn encode(&mut self, item: LenItem, dst: &mut EncodeBuf<'_>) -> Result<(), Status> {
        match item {
            LenItem::Bytes(b) => {
                dst.reserve(b.len());
                dst.put_slice(&b);
            }
            LenItem::Untouched(n) => {
                dst.reserve(n);
                // SAFETY (harness): the bytes are never read by the harness; tonic only measures
                // the length and refuses the message.  Pages stay untouched (no RSS).
                unsafe { dst.advance_mut(n) };
            }
            LenItem::Fail { partial, code } => {
                dst.reserve(partial);
                dst.put_bytes(0xEE, partial);
                return Err(Status::new(code, "encoder: this message cannot be serialized"));
            }
        }
        Ok(())
    }
    fn buffer_settings(&self) -> BufferSettings {
        self.settings
    }
}

/// A message the codec fails to serialize, at any position, after having written any part of it:
/// the body stays a concatenation of whole messages (exactly those produced before it, C03) and
/// ends with an error status (server: exactly one grpc-status, in the trailers).
pub fn run_encoder_error(sim: &Sim, _idx: u64) {
    let role = if sim.chance(1, 2) { Role::Client } else { Role::Server };
    let enc: Option<Enc> = if sim.chance(1, 3) { Some(sim.pick(&indep::ALL_ENC)) } else { None };
    let nb = sim.range(0, 4);
    let before: Vec<Vec<u8>> = (0..nb).map(|_| sim.bytes(sim.pick(&[0usize, 1, 5, 40, 700, 9000]))).collect();
    let na = sim.range(0, 2);
    let partial = sim.pick(&[0usize, 1, 4, 5, 6, 100, 8192, 20_000]);
    let code = sim.pick(&[Code::Internal, Code::InvalidArgument, Code::DataLoss]);
    let mut items: Vec<Result<LenItem, Status>> = before.iter().map(|m| Ok(LenItem::Bytes(m.clone()))).collect();
    items.push(Ok(LenItem::Fail { partial, code }));
    for _ in 0..na {
        items.push(Ok(LenItem::Bytes(sim.bytes(sim.pick(&[0usize, 3, 50])))));
    }
    let enc_buffer = sim.pick(&[1usize, 64, 8192]);
    let enc_yield = sim.pick(&[0usize, 5, 64, 1000, 32768]);
    let src_pending = sim.pick(&[0u64, 0, 30, 80]);
    sim.nontrivial();
    sim.sample(|| format!("encoder-error: role={role:?} enc={enc:?} before={:?} partial={partial} code={code:?} after={na} yield={enc_yield} src_pending%={src_pending}", before.iter().map(|m| m.len()).collect::<Vec<_>>()));
    sim.ev(|| format!("config encoder-error: role={role:?} enc={enc:?} before={:?} partial={partial} code={code:?} after={na} yield={enc_yield} buffer={enc_buffer} src_pending%={src_pending}", before.iter().map(|m| m.len()).collect::<Vec<_>>()));
    sim.probe(if before.is_empty() { "failing-message-first" } else { "failing-message-not-first" });
    let encoder = LenEncoder { settings: BufferSettings::new(enc_buffer, enc_yield) };
    let obs = encode_body(sim, role, encoder, items, src_pending, enc.map(|e| e.tonic()), None, 2);
    match obs.ended_by {
        "hang" => return sim.violation("C03/lost-wakeup-in-encoder", "EncodeBody returned Pending with no wake-up registered".into()),
        "livelock" => return sim.violation("C03/call-hangs", "EncodeBody never finished after an encoder error".into()),
        _ => {}
    }
    let data = obs.data();
    // tonic reports a codec's failure as its own INTERNAL "Error encoding: ..." status; the property
    // only asks that the call ends with *an* error status, once
    match role {
        Role::Server => {
            let status_code: Option<i32> = obs.trailers().first().and_then(|t| t.get("grpc-status")).and_then(|v| v.to_str().ok()).and_then(|s| s.parse().ok());
            if matches!(status_code, None | Some(0)) {
                sim.violation("C03/encoder-error-ends-call-without-error-status", format!("the encoder failed with {code:?}; grpc-status in the trailers: {status_code:?} (ended by {})", obs.ended_by));
            }
            c03::check_server_body_end(sim, "EncodeBody(server, encoder error)", &obs, 0);
        }
        Role::Client => {
            if obs.error().is_none() {
                sim.violation("C03/encoder-error-ends-call-without-error-status", format!("the encoder failed with {code:?}; the request body ended cleanly (ended by {})", obs.ended_by));
            }
        }
    }
    // exactly the messages produced before the failing one, whole, nothing of the failing one
    c03::check_message_bytes(sim, "EncodeBody(encoder error)", &data, enc, &before, true);
}

pub fn run_encode(sim: &Sim, _idx: u64) {
    let role = if sim.chance(1, 2) { Role::Client } else { Role::Server };
    let enc: Option<Enc> = if sim.chance(1, 4) { Some(sim.pick(&indep::ALL_ENC)) } else { None };
    let enc_buffer = sim.pick(&[1usize, 64, 8192]);
    let enc_yield = sim.pick(&[0usize, 5, 64, 1000, 32768]);
    let src_pending = sim.pick(&[0u64, 0, 30, 80]);
    let ser = match sim.draw(3) {
        0 => vec![0u8; sim.range(0, 20_000) as usize],
        _ => sim.bytes(sim.pick(&[0usize, 1, 5, 6, 99, 100, 101, 1000, 1001, 40_000])),
    };
    // wire length of the probe as far as the harness can know it
    let w_exact: Option<usize> = if enc.is_none() { Some(ser.len()) } else { None };
    let w_est = match enc {
        None => ser.len(),
        Some(e) => indep::compress(e, &ser).len(),
    };
    let limit: usize = match sim.weighted(&[3, 3, 3, 3]) {
        0 if w_est > 0 => w_est - 1,
        1 => w_est,
        2 => w_est + 1,
        _ => sim.pick(&[0usize, 1, 5, 100, 1000, 65_536]),
    };
    // verdict: exact for identity; for compressed streams only far from the boundary
    let verdict: Option<bool> = match w_exact {
        Some(w) => Some(w <= limit),
        None => {
            if limit >= 2 * w_est + 64 {
                Some(true)
            } else if w_est >= 16 && limit < w_est / 2 {
                Some(false)
            } else {
                None
            }
        }
    };
    // earlier / later messages small enough to pass under any drawn limit are impossible for
    // limit 0 unless empty; sizes are capped by the limit (identity) or kept empty (compressed)
    let cap = if enc.is_none() { limit } else { 0 };
    let nb = sim.range(0, 4);
    let before: Vec<Vec<u8>> = small_sizes(sim, nb, cap).into_iter().map(|s| sim.bytes(s)).collect();
    let na = sim.range(0, 2);
    let after: Vec<Vec<u8>> = small_sizes(sim, na, cap).into_iter().map(|s| sim.bytes(s)).collect();
    // compressed empty messages have a non-zero wire length; make sure they fit, else skip them
    let fits = |m: &Vec<u8>| match enc {
        None => m.len() <= limit,
        Some(e) => 2 * indep::compress(e, m).len() + 64 <= limit,
    };
    let before: Vec<Vec<u8>> = before.into_iter().filter(|m| fits(m)).collect();
    let after: Vec<Vec<u8>> = after.into_iter().filter(|m| fits(m)).collect();
    let mut items: Vec<Result<RawMsg, Status>> = vec![];
    for m in &before {
        items.push(Ok(RawMsg(Bytes::from(m.clone()))));
    }
    items.push(Ok(RawMsg(Bytes::from(ser.clone()))));
    for m in &after {
        items.push(Ok(RawMsg(Bytes::from(m.clone()))));
    }
    sim.nontrivial();
    sim.sample(|| format!("encode: role={role:?} enc={enc:?} limit={limit} probe_len={} wire_est={w_est} verdict={verdict:?} before={:?} after={:?} yield={enc_yield} src_pending%={src_pending}", ser.len(), before.iter().map(|m| m.len()).collect::<Vec<_>>(), after.iter().map(|m| m.len()).collect::<Vec<_>>()));
    sim.ev(|| format!("config encode: role={role:?} enc={enc:?} limit={limit} probe_len={} wire_est={w_est} verdict={verdict:?} before={:?} after={:?} yield={enc_yield} buffer={enc_buffer} src_pending%={src_pending}", ser.len(), before.iter().map(|m| m.len()).collect::<Vec<_>>(), after.iter().map(|m| m.len()).collect::<Vec<_>>()));
    if !before.is_empty() {
        sim.probe("oversized-candidate-not-first");
    } else {
        sim.probe("oversized-candidate-first");
    }
    crate::rawcodec::draw_styles(sim);
    let encoder = RawCodec(RawCfg { enc_buffer, enc_yield, ..RawCfg::default() }).encoder();
    let obs = encode_body(sim, role, encoder, items, src_pending, enc.map(|e| e.tonic()), Some(limit), 2);
    judge_encode(sim, role, enc, &obs, &before, &ser, &after, verdict, Code::OutOfRange, limit);
}

#[allow(clippy::too_many_arguments)]
fn judge_encode(sim: &Sim, role: Role, enc: Option<Enc>, obs: &crate::fdrive::BodyObs, before: &[Vec<u8>], probe: &[u8], after: &[Vec<u8>], verdict: Option<bool>, refuse_code: Code, limit: usize) {
    match obs.ended_by {
        "hang" => {
            sim.violation("C06/lost-wakeup-in-encoder", "EncodeBody returned Pending with no wake-up registered".into());
            return;
        }
        "livelock" => {
            sim.violation("C06/livelock-in-encoder", "EncodeBody never finished".into());
            return;
        }
        _ => {}
    }
    let data = obs.data();
    if obs.past_end.iter().any(|s| s.starts_with("Data")) {
        sim.probe("body-returns-data-when-polled-past-end");
    }
    let status_code: Option<i32> = match role {
        Role::Server => obs.trailers().first().and_then(|t| t.get("grpc-status")).and_then(|v| v.to_str().ok()).and_then(|s| s.parse().ok()),
        Role::Client => None,
    };
    let body_err = obs.error();
    let refused = match role {
        Role::Server => status_code.map(|c| c != 0).unwrap_or(false),
        Role::Client => body_err.is_some(),
    };
    let Some(accept) = verdict else {
        // boundary of a compressed message: the harness cannot know tonic's exact compressed
        // length; only the conservation clause is judged
        if refused {
            let expect: Vec<Vec<u8>> = before.to_vec();
            c03::check_message_bytes(sim, "EncodeBody(refusing)", &data, enc, &expect, false);
            let (frames, _) = indep::parse_frames(&data);
            if frames.len() < expect.len() {
                sim.violation("C06/earlier-messages-lost-on-encode-failure", format!("{} messages were produced before the refused one, only {} reached the wire ahead of the status", expect.len(), frames.len()));
            }
        }
        return;
    };
    if accept {
        sim.probe("encode-within-limit");
        let mut expect: Vec<Vec<u8>> = before.to_vec();
        expect.push(probe.to_vec());
        expect.extend(after.iter().cloned());
        if refused {
            sim.violation("C06/message-within-encode-limit-refused", format!("probe of {} bytes, limit {limit}: refused with status {:?} / body error {:?}", probe.len(), status_code, body_err));
            return;
        }
        c03::check_message_bytes(sim, "EncodeBody", &data, enc, &expect, true);
        let (frames, _) = indep::parse_frames(&data);
        if frames.len() != expect.len() {
            sim.violation("C06/accepted-stream-incomplete", format!("{} messages produced, {} on the wire", expect.len(), frames.len()));
        }
    } else {
        sim.probe("encode-over-limit");
        // the call ends with the refusal status ...
        match role {
            Role::Server => {
                if status_code != Some(refuse_code as i32) {
                    sim.violation("C06/oversized-outgoing-wrong-status", format!("expected grpc-status {} in trailers, got {:?} (ended by {})", refuse_code as i32, status_code, obs.ended_by));
                }
                c03::check_server_body_end(sim, "EncodeBody(server, refusing)", obs, 0);
            }
            Role::Client => match &body_err {
                Some((c, _)) if *c == refuse_code => {}
                other => sim.violation("C06/oversized-outgoing-wrong-status", format!("expected body error {refuse_code:?}, got {:?} (ended by {})", other, obs.ended_by)),
            },
        }
        // ... the oversized message is not sent, and everything before it is, in order
        let (frames, end) = indep::parse_frames(&data);
        let expect: Vec<Vec<u8>> = before.to_vec();
        if frames.len() > expect.len() || end != indep::ParseEnd::Clean {
            sim.violation("C06/oversized-message-bytes-on-wire", format!("{} earlier messages, but the wire carries {} frames (parse end {:?}, {} bytes)", expect.len(), frames.len(), end, data.len()));
        } else if frames.len() < expect.len() {
            sim.violation(
                "C06/earlier-messages-lost-on-encode-failure",
                format!("{} messages were produced before the oversized one, only {} reached the wire ahead of the status; frames: {:?}", expect.len(), frames.len(), obs.frames.iter().map(|f| match f { FrameObs::Data(d) => format!("DATA {}B", d.len()), FrameObs::Trailers(_) => "TRAILERS".into(), FrameObs::Err(c, _) => format!("ERR {c:?}") }).collect::<Vec<_>>()),
            );
        } else {
            c03::check_message_bytes(sim, "EncodeBody(refusing)", &data, enc, &expect, false);
        }
    }
}

/// Thorough only: a message larger than 4 GiB is refused with RESOURCE_EXHAUSTED, earlier messages
/// still delivered.  The encoder reserves and advances 2^32+1 bytes without touching them.
pub fn run_encode_4gib(sim: &Sim, idx: u64) {
    let role = if idx % 2 == 0 { Role::Client } else { Role::Server };
    let nb = sim.range(0, 2);
    let before: Vec<Vec<u8>> = (0..nb).map(|_| sim.bytes(sim.range(0, 40) as usize)).collect();
    let mut items: Vec<Result<LenItem, Status>> = before.iter().map(|m| Ok(LenItem::Bytes(m.clone()))).collect();
    let n = (u32::MAX as usize) + 1 + sim.range(0, 2) as usize;
    items.push(Ok(LenItem::Untouched(n)));
    sim.nontrivial();
    sim.sample(|| format!("encode-4gib: role={role:?} before={:?} probe_len={n}", before.iter().map(|m| m.len()).collect::<Vec<_>>()));
    sim.ev(|| format!("config encode-4gib: role={role:?} before={:?} probe_len={n}", before.iter().map(|m| m.len()).collect::<Vec<_>>()));
    let encoder = LenEncoder { settings: BufferSettings::new(8192, sim.pick(&[0usize, 32768])) };
    let obs = encode_body(sim, role, encoder, items, sim.pick(&[0u64, 50]), None, None, 0);
    sim.probe("beyond-4gib");
    judge_encode(sim, role, None, &obs, &before, &[], &[], Some(false), Code::ResourceExhausted, usize::MAX);
}

// ------------------------------------------------------------------------------------------------
// Limits through the generated client/server plumbing (all four call shapes, asymmetric limits).

use crate::c02::{self, CallPlan, SHAPES};
use crate::handlers::{Handler, Script};
use crate::loopback::Loopback;
use simcore::{drive, Drive};

pub fn run_plumbing(sim: &Sim, _idx: u64) {
    let shape = sim.draw(4) as usize;
    let lim = |sim: &Sim| -> Option<usize> { sim.pick(&[None, None, Some(20usize), Some(100), Some(1000)]) };
    let (server_dec, server_enc, client_dec, client_enc) = (lim(sim), lim(sim), lim(sim), lim(sim));
    let size = |sim: &Sim| sim.pick(&[0usize, 5, 19, 20, 21, 99, 100, 101, 999, 1000, 1001, 3000]);
    let nreq = if shape == 1 || shape == 3 { sim.range(1, 4) } else { 1 };
    let nresp = if shape >= 2 { sim.range(1, 4) } else { 1 };
    let req_msgs: Vec<Vec<u8>> = (0..nreq).map(|_| sim.bytes(size(sim))).collect();
    let resp_msgs: Vec<Vec<u8>> = (0..nresp).map(|_| sim.bytes(size(sim))).collect();
    let plan = CallPlan {
        id: 1,
        shape,
        req_md: vec![],
        req_msgs: req_msgs.clone(),
        tag: 0,
        script: Script { msgs: resp_msgs.clone(), src_pending: sim.pick(&[0u64, 0, 40]), ..Default::default() },
        req_src_pending: sim.pick(&[0u64, 0, 40]),
        extra_polls: 0,
        early_trailers_after: None,
        ping_pong: false,
    };
    sim.nontrivial();
    sim.sample(|| format!("plumbing: {} server dec/enc {server_dec:?}/{server_enc:?} client dec/enc {client_dec:?}/{client_enc:?} req {:?} resp {:?}", SHAPES[shape], req_msgs.iter().map(|m| m.len()).collect::<Vec<_>>(), resp_msgs.iter().map(|m| m.len()).collect::<Vec<_>>()));
    sim.ev(|| format!("config plumbing: {} server dec/enc {server_dec:?}/{server_enc:?} client dec/enc {client_dec:?}/{client_enc:?} req {:?} resp {:?}", SHAPES[shape], req_msgs.iter().map(|m| m.len()).collect::<Vec<_>>(), resp_msgs.iter().map(|m| m.len()).collect::<Vec<_>>()));
    crate::rawcodec::draw_styles(sim);
    crate::rawcodec::set_cfg(RawCfg { enc_yield: sim.pick(&[0usize, 64, 32768]), ..RawCfg::default() });
    let handler = Handler::new(sim);
    handler.add_script(1, plan.script.clone());
    let mut server = crate::rawsvc::raw_server::RawServer::new(handler.clone());
    if let Some(l) = server_dec {
        server = server.max_decoding_message_size(l);
    }
    if let Some(l) = server_enc {
        server = server.max_encoding_message_size(l);
    }
    let server = if sim.chance(1, 3) { server.clone() } else { server };
    let lb = Loopback::new(sim, server);
    let mut client = crate::rawsvc::raw_client::RawClient::new(lb);
    if let Some(l) = client_dec {
        client = client.max_decoding_message_size(l);
    }
    if let Some(l) = client_enc {
        client = client.max_encoding_message_size(l);
    }
    // an application may hand out clones of the configured client (and servers are cloned per
    // connection): they carry the same limits
    let mut client = match sim.weighted(&[3, 1, 1]) {
        1 => client.clone(),
        2 => {
            let c = client.clone();
            drop(client);
            c.clone()
        }
        _ => client,
    };
    let obs = {
        let fut = c02::perform::<RawMsg, _>(sim, &mut client, &plan);
        let mut fut = std::pin::pin!(fut);
        match drive(sim, fut.as_mut(), 2_000_000) {
            Drive::Done(o) => o,
            Drive::Hang { polls } => return sim.violation("C06/lost-wakeup", format!("call Pending with no wake-up after {polls} polls")),
            Drive::Budget { polls } => return sim.violation("C06/livelock", format!("call not finished after {polls} polls")),
            Drive::Stalled { .. } => return,
        }
    };
    // ---- reference: where does the first refusal happen?
    let ce = client_enc.unwrap_or(usize::MAX);
    let sd = server_dec.unwrap_or(DEFAULT_DEC_LIMIT);
    let se = server_enc.unwrap_or(usize::MAX);
    let cd = client_dec.unwrap_or(DEFAULT_DEC_LIMIT);
    let used_req: &[Vec<u8>] = if shape == 0 || shape == 2 { &req_msgs[..1] } else { &req_msgs[..] };
    let req_refused = used_req.iter().any(|m| m.len() > ce || m.len() > sd);
    let mut delivered: Vec<Vec<u8>> = vec![];
    let mut resp_refused = false;
    if !req_refused {
        for m in &resp_msgs {
            if m.len() > se || m.len() > cd {
                resp_refused = true;
                break;
            }
            delivered.push(m.clone());
        }
    }
    let who = format!("{} (server dec/enc {server_dec:?}/{server_enc:?}, client dec/enc {client_dec:?}/{client_enc:?}, req {:?}, resp {:?})", SHAPES[shape], used_req.iter().map(|m| m.len()).collect::<Vec<_>>(), resp_msgs.iter().map(|m| m.len()).collect::<Vec<_>>());
    let err_code = obs.call_err.as_ref().or(obs.stream_err.as_ref()).map(|e| e.code());
    if req_refused || resp_refused {
        sim.probe(if req_refused { "plumbing-request-over-limit" } else { "plumbing-response-over-limit" });
        match err_code {
            Some(Code::OutOfRange) => {}
            other => sim.violation("C06/limit-not-enforced-through-generated-plumbing", format!("{who}: a message is over a configured limit, but the caller sees {:?} (unary message {:?}, {} stream items, clean_end {})", other, obs.unary_msg.as_ref().map(|m| m.len()), obs.items.len(), obs.clean_end)),
        }
        if shape >= 2 && !req_refused && obs.items != delivered {
            sim.violation("C06/messages-before-the-refused-one-not-delivered", format!("{who}: expected {:?} before the status, caller got {:?}", delivered.iter().map(|m| m.len()).collect::<Vec<_>>(), obs.items.iter().map(|m| m.len()).collect::<Vec<_>>()));
        }
    } else {
        sim.probe("plumbing-within-limits");
        if let Some(c) = err_code {
            sim.violation("C06/message-within-limits-refused-through-generated-plumbing", format!("{who}: every message is within every limit, caller sees {c:?}"));
        } else if shape >= 2 && obs.items != delivered {
            sim.violation("C06/messages-lost-through-generated-plumbing", format!("{who}: caller got {:?}", obs.items.iter().map(|m| m.len()).collect::<Vec<_>>()));
        } else if shape <= 1 && obs.unary_msg.as_ref() != delivered.first() {
            sim.violation("C06/messages-lost-through-generated-plumbing", format!("{who}: caller got {:?}", obs.unary_msg.as_ref().map(|m| m.len())));
        }
    }
}
