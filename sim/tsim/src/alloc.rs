//! Counting global allocator: per-thread "largest single allocation request since mark" (C06).
//! It is also the seam for one more source of nondeterminism: the contents of fresh heap memory.
//! Code under test that emits reserved-but-unwritten bytes (a seeded change did: the 5-byte frame
//! prefix of a message whose encoding failed) would otherwise put allocator garbage on the wire,
//! and the run would not replay. Every allocation is zero-filled, so such bytes read as zeros.

use std::alloc::{GlobalAlloc, Layout, System};
use std::cell::Cell;

pub struct Counting;

thread_local! {
    static MAX_SINGLE: Cell<usize> = const { Cell::new(0) };
}

pub fn mark() {
    MAX_SINGLE.with(|m| m.set(0));
}

pub fn max_single_since_mark() -> usize {
    MAX_SINGLE.with(|m| m.get())
}

/// A single request of this size (64 GiB) cannot be satisfied on the machines the checks run on
/// and is never legitimate for the code under test: the process would abort. It is reported as a
/// violation (with a replay file) instead.
const ABSURD: usize = 1 << 36;

#[inline]
fn note(sz: usize) {
    if sz >= ABSURD {
        simcore::runner::emergency_violation("absurd-allocation-requested", &format!("a single allocation of {sz} bytes was requested (peer-controlled size fields must not size allocations)"));
    }
    let _ = MAX_SINGLE.try_with(|m| {
        if sz > m.get() {
            m.set(sz)
        }
    });
}

unsafe impl GlobalAlloc for Counting {
    unsafe fn alloc(&self, l: Layout) -> *mut u8 {
        note(l.size());
        System.alloc_zeroed(l)
    }
    unsafe fn dealloc(&self, p: *mut u8, l: Layout) {
        System.dealloc(p, l)
    }
    unsafe fn alloc_zeroed(&self, l: Layout) -> *mut u8 {
        note(l.size());
        System.alloc_zeroed(l)
    }
    unsafe fn realloc(&self, p: *mut u8, l: Layout, new_size: usize) -> *mut u8 {
        note(new_size);
        let q = System.realloc(p, l, new_size);
        // zero the grown tail (skipped for absurdly large growth, which is never read: C06's 4 GiB probe)
        if !q.is_null() && new_size > l.size() && new_size - l.size() <= (64 << 20) {
            std::ptr::write_bytes(q.add(l.size()), 0, new_size - l.size());
        }
        q
    }
}
