//! Counting global allocator: per-thread "largest single allocation request since mark" (C06).

use std::alloc::{GlobalAlloc, Layout, System};
use std::cell::Cell;

pub struct Counting;

thread_local! {
    static MAX_SINGLE: Cell<usize> = const { Cell::new(0) };
}

pub fn mark() {
    MAX_SINGLE.with(|m| m.set(0));
}

pub fn max_single_since_mark() -> usize {
    MAX_SINGLE.with(|m| m.get())
}

/// A single request of this size (64 GiB) cannot be satisfied on the machines the checks run on
/// and is never legitimate for the code under test: the process would abort. It is reported as a
/// violation (with a replay file) instead.
const ABSURD: usize = 1 << 36;

#[inline]
fn note(sz: usize) {
    if sz >= ABSURD {
        simcore::runner::emergency_violation("absurd-allocation-requested", &format!("a single allocation of {sz} bytes was requested (peer-controlled size fields must not size allocations)"));
    }
    let _ = MAX_SINGLE.try_with(|m| {
        if sz > m.get() {
            m.set(sz)
        }
    });
}

unsafe impl GlobalAlloc for Counting {
    unsafe fn alloc(&self, l: Layout) -> *mut u8 {
        note(l.size());
        System.alloc(l)
    }
    unsafe fn dealloc(&self, p: *mut u8, l: Layout) {
        System.dealloc(p, l)
    }
    unsafe fn alloc_zeroed(&self, l: Layout) -> *mut u8 {
        note(l.size());
        System.alloc_zeroed(l)
    }
    unsafe fn realloc(&self, p: *mut u8, l: Layout, new_size: usize) -> *mut u8 {
        note(new_size);
        System.realloc(p, l, new_size)
    }
}
