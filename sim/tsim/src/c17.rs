//! C17 — grpc-web client layer recovers messages and full trailers under any chunking; truncated
//! or malformed bodies produce an error, never a clean end, a hang or a busy loop.  Engine F:
//! `tonic_web::GrpcWebClientService` is real; the grpc-web server behind it is a scripted peer whose
//! response body is built by an independent encoder and delivered in any chunking / truncated at
//! any byte.

use crate::c16::parse_trailer_block;
use crate::indep;
use crate::seams::{cut_bytes, Ev, Segmented, SimBody};
use bytes::Bytes;
use http::{HeaderMap, Version};
use http_body::Body;
use http_body_util::BodyExt;
use simcore::exec::Flag;
use simcore::{drive, Drive, Sim};
use std::future::Future;
use std::pin::Pin;
use std::sync::{Arc, Mutex};
use std::task::{Context, Poll, Waker};

#[derive(Clone, Default, Debug)]
pub struct WebSeen {
    pub version: Option<Version>,
    pub headers: HeaderMap,
    pub body: Vec<u8>,
}

#[derive(Clone)]
pub struct WebPeer {
    sim: Sim,
    pub seen: Arc<Mutex<WebSeen>>,
    pub body: Vec<Ev>,
    pub pending: u64,
}

impl<B> tower_service::Service<http::Request<tonic_web::GrpcWebCall<B>>> for WebPeer
where
    B: Body<Data = Bytes> + Send + 'static,
    B::Error: std::fmt::Display,
{
    type Response = http::Response<Segmented>;
    type Error = std::convert::Infallible;
    type Future = Pin<Box<dyn Future<Output = Result<Self::Response, Self::Error>> + Send>>;
    fn poll_ready(&mut self, _cx: &mut Context<'_>) -> Poll<Result<(), Self::Error>> {
        Poll::Ready(Ok(()))
    }
    fn call(&mut self, req: http::Request<tonic_web::GrpcWebCall<B>>) -> Self::Future {
        let this = self.clone();
        Box::pin(async move {
            let (parts, body) = req.into_parts();
            let mut body = std::pin::pin!(body);
            {
                let mut s = this.seen.lock().unwrap();
                s.version = Some(parts.version);
                s.headers = parts.headers.clone();
            }
            while let Some(f) = body.frame().await {
                if let Ok(f) = f {
                    if f.is_data() {
                        this.seen.lock().unwrap().body.extend_from_slice(&f.into_data().unwrap());
                    }
                } else {
                    break;
                }
            }
            let mut resp = http::Response::new(Segmented::new(SimBody::new(&this.sim, "web-resp", this.body.clone(), this.pending, this.sim.chance(1, 2))));
            resp.headers_mut().insert("content-type", "application/grpc-web+proto".parse().unwrap());
            Ok(resp)
        })
    }
}

fn gen_trailers(sim: &Sim) -> Vec<(String, Vec<u8>)> {
    let mut t: Vec<(String, Vec<u8>)> = vec![("grpc-status".into(), sim.range(0, 16).to_string().into_bytes())];
    if sim.chance(1, 2) {
        t.push(("grpc-message".into(), sim.pick(&["ok", "a%20b", "x:y", "with space", "http://h:80/p", "12:34:56"]).as_bytes().to_vec()));
    }
    let n = sim.range(0, 4);
    for _ in 0..n {
        let name = sim.pick(&["x-a", "x-b", "k.1", "x-a", "x-c"]).to_string();
        let val: Vec<u8> = match sim.draw(10) {
            // obs-text: header values are bytes, not necessarily UTF-8
            0 => vec![b'c', b'a', b'f', 0xe9],
            1 => vec![0xff, b':', 0xfe],
            _ => sim.pick(&["v", "a:b", ":lead", "trail:", "two words", "a: b", "", "x"]).as_bytes().to_vec(),
        };
        t.push((name, val));
    }
    // a trailers frame may legally be empty (`80 00 00 00 00`): the status then travelled in the
    // response headers; the client layer must still deliver the messages and one (empty) trailers map
    if sim.chance(1, 12) {
        t.clear();
        sim.probe("zero-length-trailers-frame");
    }
    t
}

#[derive(Debug)]
enum WEv {
    Data(Vec<u8>),
    Trailers(HeaderMap),
    Err(String),
    End,
    Hang,
    Livelock,
}

pub fn run(sim: &Sim, _idx: u64) {
    // ---- the grpc-web response body, by the independent encoder ----
    let nmsg = sim.range(0, 6);
    let mut body: Vec<u8> = vec![];
    let mut starts: Vec<usize> = vec![];
    let mut msg_bytes: Vec<u8> = vec![];
    for _ in 0..nmsg {
        let f = indep::frame(sim.draw(2) as u8, &sim.bytes(sim.pick(&[0usize, 1, 4, 5, 6, 50, 700, 700, 8187, 8192, 9000, 20_000])));
        starts.push(body.len());
        body.extend(&f);
        msg_bytes.extend(&f);
    }
    let trailers = gen_trailers(sim);
    let space_after_colon = sim.chance(1, 2);
    // an HTTP/1 header block: field names are case-insensitive; some servers capitalise them
    let name_case = sim.weighted(&[3, 1, 1]);
    if name_case > 0 {
        sim.probe("trailer-names-not-lower-case");
    }
    let mut block = vec![];
    for (k, v) in &trailers {
        let wire_name: String = match name_case {
            0 => k.clone(),
            1 => k.to_ascii_uppercase(),
            _ => {
                // Capitalised-Words
                let mut up = true;
                k.chars().map(|c| { let o = if up { c.to_ascii_uppercase() } else { c }; up = c == '-'; o }).collect()
            }
        };
        block.extend_from_slice(wire_name.as_bytes());
        block.push(b':');
        if space_after_colon {
            block.push(b' ');
        }
        block.extend_from_slice(v);
        block.extend_from_slice(b"\r\n");
    }
    let trailers_at = body.len();
    starts.push(trailers_at);
    body.extend(indep::frame(0x80, &block));
    let full_len = body.len();
    // ---- fault: truncation at any byte / malformation ----
    let fault = sim.weighted(&[6, 3, 1]);
    let mut defect: Option<String> = None;
    match fault {
        1 => {
            let t = sim.range(0, full_len as u64 - 1) as usize;
            body.truncate(t);
            sim.fault("truncate");
            // a cut inside a frame (prefix or payload); a cut exactly at a frame boundary is not judged
            let boundary = starts.contains(&t);
            if !boundary {
                defect = Some(format!("truncated at byte {t} of {full_len} (inside a frame)"));
            } else {
                defect = Some(format!("cut at frame boundary {t}: not judged"));
            }
        }
        2 => {
            sim.fault("malformed");
            match sim.draw(2) {
                0 if nmsg > 0 => {
                    let s = starts[sim.draw(nmsg) as usize];
                    body[s] = sim.pick(&[2u8, 7, 0x7f, 0x81, 0xff]);
                    defect = Some(format!("illegal frame flag {:#x} at {s}", body[s]));
                }
                _ => {
                    // trailers block without CRLF / without colon
                    body.truncate(trailers_at);
                    let bad: &[u8] = sim.pick(&[&b"grpc-status 0\r\n"[..], &b"\xff\xfe:1\r\n"[..], &b"bad name: 1\r\n"[..], &b"x(y): 1\r\ngrpc-status: 0\r\n"[..], &b": novalue\r\n"[..], &b"grpc-status: 0\r\nx-a: v\x00w\r\n"[..]]);
                    body.extend(indep::frame(0x80, bad));
                    defect = Some("malformed trailers block".into());
                }
            }
        }
        _ => {}
    }
    let chunks = cut_bytes(sim, &body, &starts);
    // probes on where the cuts fall
    {
        let mut off = 0usize;
        let mut same_chunk_msg_and_trailers = false;
        for c in &chunks {
            let (a, b) = (off, off + c.len());
            off = b;
            if nmsg > 0 && a < trailers_at && b > trailers_at {
                same_chunk_msg_and_trailers = true;
            }
            if b > trailers_at && b < trailers_at + 5 && b < body.len() {
                sim.probe("cut-inside-trailers-frame-header");
            }
            if b >= trailers_at + 5 && b < full_len && b < body.len() {
                sim.probe("cut-inside-trailers-block");
            }
        }
        if same_chunk_msg_and_trailers {
            sim.probe("message-and-trailers-in-one-chunk");
        }
    }
    let mut body_evs: Vec<Ev> = chunks.into_iter().map(Ev::Data).collect();
    // a defective body may still be followed by HTTP trailers of the transport (a proxy's, say):
    // they do not make a truncated or malformed grpc-web body whole
    if defect.as_ref().map(|d| !d.contains("not judged")).unwrap_or(false) && sim.chance(1, 3) {
        let mut t = HeaderMap::new();
        t.insert("x-proxy-trailer", "1".parse().unwrap());
        if sim.chance(1, 2) {
            t.insert("grpc-status", "0".parse().unwrap());
        }
        body_evs.push(Ev::Trailers(t));
        sim.fault("http-trailers-after-defective-body");
    }
    let peer = WebPeer { sim: sim.clone(), seen: Arc::new(Mutex::new(WebSeen::default())), body: body_evs, pending: sim.pick(&[0u64, 0, 30]) };
    let seen = peer.seen.clone();
    let mut svc = tonic_web::GrpcWebClientService::new(peer);
    sim.nontrivial();
    sim.sample(|| format!("msgs={nmsg} ({}B) trailers={:?} space_after_colon={space_after_colon} name_case={name_case} fault={defect:?} body={}B", msg_bytes.len(), trailers.iter().map(|(k, v)| format!("{k}:{}", String::from_utf8_lossy(v))).collect::<Vec<_>>(), body.len()));
    sim.ev(|| format!("config: msgs={nmsg} ({}B) trailers={:?} space_after_colon={space_after_colon} name_case={name_case} fault={defect:?} body={}B", msg_bytes.len(), trailers.iter().map(|(k, v)| format!("{k}:{}", String::from_utf8_lossy(v))).collect::<Vec<_>>(), body.len()));

    // ---- the request tonic's client hands to the layer ----
    let req_grpc = indep::frame(0, b"request");
    let mut req = http::Request::new(SimBody::new(sim, "client-req", vec![Ev::Data(Bytes::from(req_grpc.clone()))], 0, false));
    *req.method_mut() = http::Method::POST;
    *req.version_mut() = Version::HTTP_2;
    *req.uri_mut() = "http://h/pkg.Svc/M".parse().unwrap();
    req.headers_mut().insert("content-type", "application/grpc".parse().unwrap());
    let fut = tower_service::Service::call(&mut svc, req);
    let mut fut = std::pin::pin!(fut);
    let resp = match drive(sim, fut.as_mut(), 1_000_000) {
        Drive::Done(Ok(r)) => r,
        Drive::Done(Err(e)) => match e {},
        Drive::Hang { polls } => return sim.violation("lost-wakeup", format!("client layer future Pending with no wake-up after {polls} polls")),
        Drive::Budget { polls } => return sim.violation("livelock", format!("client layer future not finished after {polls} polls")),
        Drive::Stalled { .. } => return,
    };
    {
        let s = seen.lock().unwrap();
        if s.body != req_grpc {
            sim.violation("request-bytes-altered", format!("peer received {}B, client sent {}B", s.body.len(), req_grpc.len()));
        }
        if s.headers.get("content-type").map(|v| v.as_bytes()) != Some(b"application/grpc-web") {
            sim.violation("request-content-type-not-grpc-web", format!("{:?}", s.headers.get("content-type")));
        }
    }
    // ---- consume the translated response body the way tonic's decoder does ----
    let (_parts, body) = resp.into_parts();
    let mut body = std::pin::pin!(body);
    let flag = Flag::new();
    let waker = Waker::from(flag.clone());
    let mut cx = Context::from_waker(&waker);
    let mut evs: Vec<WEv> = vec![];
    let mut pendings = 0u64;
    let mut after_terminal = 0;
    loop {
        flag.take();
        match body.as_mut().poll_frame(&mut cx) {
            Poll::Ready(None) => {
                sim.ev(|| "client sees: end".into());
                evs.push(WEv::End);
                after_terminal += 1;
            }
            Poll::Ready(Some(Err(e))) => {
                sim.ev(|| format!("client sees: error {:?}", e.message()));
                evs.push(WEv::Err(e.message().to_string()));
                after_terminal += 1;
            }
            Poll::Ready(Some(Ok(f))) => {
                if f.is_data() {
                    let d = f.into_data().unwrap();
                    sim.ev(|| format!("client sees: data {}B", d.len()));
                    evs.push(WEv::Data(d.to_vec()));
                } else if f.is_trailers() {
                    let t = f.into_trailers().unwrap();
                    sim.ev(|| format!("client sees: trailers {:?}", t));
                    evs.push(WEv::Trailers(t));
                }
                if after_terminal > 0 {
                    after_terminal += 1;
                }
            }
            Poll::Pending => {
                if !flag.is_set() {
                    evs.push(WEv::Hang);
                    break;
                }
                pendings += 1;
                if pendings > 100_000 {
                    evs.push(WEv::Livelock);
                    break;
                }
            }
        }
        if after_terminal > 2 || evs.len() > 5000 {
            break;
        }
    }
    // ---- oracle ----
    if evs.iter().any(|e| matches!(e, WEv::Hang)) {
        return sim.violation("lost-wakeup", "response body Pending with no wake-up registered".into());
    }
    if evs.iter().any(|e| matches!(e, WEv::Livelock)) || evs.len() > 5000 {
        return sim.violation("livelock", "response body never terminated".into());
    }
    let first_terminal = evs.iter().position(|e| matches!(e, WEv::End | WEv::Err(_))).unwrap_or(evs.len());
    let data: Vec<u8> = evs[..first_terminal].iter().filter_map(|e| if let WEv::Data(d) = e { Some(d.clone()) } else { None }).flatten().collect();
    let got_trailers: Vec<&HeaderMap> = evs[..first_terminal].iter().filter_map(|e| if let WEv::Trailers(t) = e { Some(t) } else { None }).collect();
    let ended_clean = matches!(evs.get(first_terminal), Some(WEv::End));
    let summary = || evs.iter().map(|e| match e { WEv::Data(d) => format!("Data({}B)", d.len()), WEv::Trailers(t) => format!("Trailers({})", t.len()), WEv::Err(m) => format!("Err({m:?})"), WEv::End => "End".into(), WEv::Hang => "Hang".into(), WEv::Livelock => "Livelock".into() }).collect::<Vec<_>>();
    match (&defect, fault) {
        (None, _) => {
            if !ended_clean {
                return sim.violation("complete-body-reported-as-error", format!("well-formed body: {:?}", summary()));
            }
            if data != msg_bytes {
                sim.violation("message-bytes-altered", format!("sent {}B of message frames, caller got {}B: {:?}", msg_bytes.len(), data.len(), summary()));
            }
            match got_trailers.len() {
                0 => sim.violation("trailers-lost", format!("the trailers frame was sent but no trailers were delivered: {:?}", summary())),
                1 => {
                    // compare as multisets with full values
                    let got: Vec<(String, Vec<u8>)> = got_trailers[0].iter().map(|(k, v)| (k.as_str().to_string(), v.as_bytes().to_vec())).collect();
                    let mut a = got.clone();
                    a.sort();
                    let mut b: Vec<(String, Vec<u8>)> = trailers.clone();
                    b.sort();
                    if a != b {
                        // classify
                        let names_a: Vec<&String> = a.iter().map(|x| &x.0).collect();
                        let names_b: Vec<&String> = b.iter().map(|x| &x.0).collect();
                        let class = if names_a.len() < names_b.len() { "trailers-repeated-name-collapsed" } else if b.iter().any(|(_, v)| v.contains(&b':')) { "trailer-value-truncated-at-colon" } else { "trailers-altered" };
                        sim.violation(class, format!("sent {:?}, delivered {:?}", b.iter().map(|(k, v)| format!("{k}:{}", String::from_utf8_lossy(v))).collect::<Vec<_>>(), a.iter().map(|(k, v)| format!("{k}:{}", String::from_utf8_lossy(v))).collect::<Vec<_>>()));
                    }
                }
                n => sim.violation("trailers-delivered-more-than-once", format!("{n} trailers frames")),
            }
        }
        (Some(d), 1) if d.contains("not judged") => {}
        (Some(d), _) => {
            // truncated inside a frame or malformed: an error, not a clean end
            let has_err = evs.iter().any(|e| matches!(e, WEv::Err(_)));
            if !has_err {
                sim.violation(if fault == 1 { "truncated-body-ends-cleanly" } else { "malformed-body-ends-cleanly" }, format!("{d}: {:?}", summary()));
            }
            // whatever was delivered before must be a prefix of the message bytes
            if !msg_bytes.starts_with(&data) {
                sim.violation("message-bytes-altered", format!("{d}: delivered data is not a prefix of the message frames"));
            }
        }
    }
    // errors are terminal here too
    let errs = evs.iter().filter(|e| matches!(e, WEv::Err(_))).count();
    if errs > 1 {
        sim.violation("error-not-terminal", format!("{errs} errors: {:?}", summary()));
    }
    let _ = parse_trailer_block;
}
