//! C16 — grpc-web server layer translates requests and responses losslessly.  Engine F:
//! `tonic_web::GrpcWebLayer` is real; the outer request body (binary or base64 text, any chunking),
//! the inner service and its gRPC response body (any chunking, any trailers) are simulated.
//! Oracle: independent grpc-web decoder.

use crate::fdrive::consume_body;
use crate::indep;
use crate::peer::header_map;
use crate::seams::{cut_bytes, Ev, SimBody};
use bytes::Bytes;
use http::{HeaderMap, Method, StatusCode, Version};
use http_body_util::BodyExt;
use simcore::{drive, Drive, Sim};
use std::future::Future;
use std::pin::Pin;
use std::sync::{Arc, Mutex};
use std::task::{Context, Poll};
use tower_layer::Layer;

#[derive(Clone, Debug, Default)]
pub struct InnerSeen {
    pub calls: u32,
    pub method: Option<Method>,
    pub uri: Option<http::Uri>,
    pub version: Option<Version>,
    pub headers: HeaderMap,
    pub body: Vec<u8>,
    pub body_err: Option<String>,
}

#[derive(Clone)]
pub struct InnerSvc {
    sim: Sim,
    pub seen: Arc<Mutex<InnerSeen>>,
    pub resp_status: u16,
    pub resp_headers: Vec<(String, Vec<u8>)>,
    pub resp_body: Vec<Ev>,
    pub resp_pending: u64,
}

impl tower_service::Service<http::Request<tonic::body::Body>> for InnerSvc {
    type Response = http::Response<SimBody>;
    type Error = std::convert::Infallible;
    type Future = Pin<Box<dyn Future<Output = Result<Self::Response, Self::Error>> + Send>>;
    fn poll_ready(&mut self, _cx: &mut Context<'_>) -> Poll<Result<(), Self::Error>> {
        Poll::Ready(Ok(()))
    }
    fn call(&mut self, req: http::Request<tonic::body::Body>) -> Self::Future {
        let this = self.clone();
        Box::pin(async move {
            let (parts, mut body) = req.into_parts();
            {
                let mut s = this.seen.lock().unwrap();
                s.calls += 1;
                s.method = Some(parts.method.clone());
                s.uri = Some(parts.uri.clone());
                s.version = Some(parts.version);
                s.headers = parts.headers.clone();
            }
            this.sim.ev(|| format!("inner: request {} {} {:?} headers {:?}", parts.method, parts.uri, parts.version, parts.headers));
            loop {
                match body.frame().await {
                    None => break,
                    Some(Ok(f)) => {
                        if f.is_data() {
                            this.seen.lock().unwrap().body.extend_from_slice(&f.into_data().unwrap());
                        }
                    }
                    Some(Err(e)) => {
                        this.seen.lock().unwrap().body_err = Some(format!("{:?}: {}", e.code(), e.message()));
                        break;
                    }
                }
            }
            let mut resp = http::Response::new(SimBody::new(&this.sim, "inner-resp", this.resp_body.clone(), this.resp_pending, this.sim.chance(1, 3)).with_size_hint(if this.sim.chance(1, 3) { crate::seams::SizeHint::ExactTrue } else { crate::seams::SizeHint::Unknown }));
            *resp.status_mut() = StatusCode::from_u16(this.resp_status).unwrap();
            *resp.version_mut() = Version::HTTP_2;
            *resp.headers_mut() = header_map(&this.resp_headers);
            Ok(resp)
        })
    }
}

fn gen_trailers(sim: &Sim) -> Vec<(String, Vec<u8>)> {
    let mut t: Vec<(String, Vec<u8>)> = vec![("grpc-status".into(), sim.range(0, 16).to_string().into_bytes())];
    if sim.chance(1, 2) {
        t.push(("grpc-message".into(), sim.pick(&["ok", "a%20b", "x:y", "with space", "%E4%B8%AD"]).as_bytes().to_vec()));
    }
    let n = sim.range(0, 4);
    for _ in 0..n {
        let name = sim.pick(&["x-a", "x-b", "trace-bin", "k.1", "x-a"]).to_string();
        let val: Vec<u8> = match sim.draw(5) {
            0 => b"v".to_vec(),
            1 => b"a:b:c".to_vec(),
            2 => b"two words".to_vec(),
            3 => vec![b'o', 0xe9, b'x'], // obs-text
            _ => indep::b64_encode(&sim.bytes(sim.range(0, 9) as usize), false).into_bytes(),
        };
        if val.is_empty() {
            continue;
        }
        t.push((name, val));
    }
    t
}

/// independent parser of a grpc-web trailers block: `name:value\r\n` lines
pub fn parse_trailer_block(b: &[u8]) -> Result<Vec<(String, Vec<u8>)>, String> {
    let mut out = vec![];
    let mut rest = b;
    while !rest.is_empty() {
        let end = rest.windows(2).position(|w| w == b"\r\n").ok_or_else(|| "trailer line without CRLF".to_string())?;
        let line = &rest[..end];
        let colon = line.iter().position(|c| *c == b':').ok_or_else(|| "trailer line without colon".to_string())?;
        let name = String::from_utf8_lossy(&line[..colon]).to_ascii_lowercase();
        let mut val = &line[colon + 1..];
        while val.first() == Some(&b' ') {
            val = &val[1..];
        }
        out.push((name, val.to_vec()));
        rest = &rest[end + 2..];
    }
    Ok(out)
}

fn sorted(mut v: Vec<(String, Vec<u8>)>) -> Vec<(String, Vec<u8>)> {
    v.sort();
    v
}

pub fn run(sim: &Sim, _idx: u64) {
    let kind = sim.weighted(&[8, 1, 1, 2]); // grpc-web POST / grpc-web non-POST / other HTTP/1 / other HTTP/2
    let web_ct = sim.pick(&["application/grpc-web", "application/grpc-web+proto", "application/grpc-web-text", "application/grpc-web-text+proto"]);
    let text_req = web_ct.contains("text");
    let accept: Option<&str> = sim.pick(&[Some("application/grpc-web"), Some("application/grpc-web+proto"), Some("application/grpc-web-text"), Some("application/grpc-web-text+proto"), None, Some("*/*")]);
    let text_resp = matches!(accept, Some(a) if a.contains("text"));
    // request payload: gRPC frames
    let mut req_grpc = vec![];
    let nreq = sim.range(0, 3);
    for _ in 0..nreq {
        req_grpc.extend(indep::frame(sim.draw(2) as u8, &sim.bytes(sim.range(0, 300) as usize)));
    }
    // inner response: frames split arbitrarily + trailers, or trailers-only
    let mut resp_grpc = vec![];
    let mut starts = vec![];
    let nresp = sim.range(0, 4);
    for _ in 0..nresp {
        starts.push(resp_grpc.len());
        resp_grpc.extend(indep::frame(sim.draw(2) as u8, &sim.bytes(sim.pick(&[0usize, 1, 2, 3, 5, 100, 4096]))));
    }
    let trailers = gen_trailers(sim);
    let trailers_only = nresp == 0 && sim.chance(1, 3);
    // the inner gRPC service may name its message format in the content-type (`+proto`, `+json`)
    let inner_ct: &[u8] = sim.pick(&[&b"application/grpc"[..], &b"application/grpc"[..], &b"application/grpc+proto"[..], &b"application/grpc+json"[..]]);
    let mut resp_headers: Vec<(String, Vec<u8>)> = vec![("content-type".into(), inner_ct.to_vec()), ("x-resp-head".into(), b"h".to_vec())];
    let mut resp_body: Vec<Ev> = vec![];
    if trailers_only {
        resp_headers.extend(trailers.clone());
    } else {
        resp_body = cut_bytes(sim, &resp_grpc, &starts).into_iter().map(Ev::Data).collect();
        resp_body.push(Ev::Trailers(header_map(&trailers)));
    }
    let inner = InnerSvc { sim: sim.clone(), seen: Arc::new(Mutex::new(InnerSeen::default())), resp_status: 200, resp_headers: resp_headers.clone(), resp_body, resp_pending: sim.pick(&[0u64, 30]) };
    let seen = inner.seen.clone();
    let mut svc = tonic_web::GrpcWebLayer::new().layer(inner);

    // outer request
    let (method, version, ct): (Method, Version, Option<&str>) = match kind {
        0 => (Method::POST, sim.pick(&[Version::HTTP_11, Version::HTTP_2]), Some(web_ct)),
        1 => (sim.pick(&[Method::GET, Method::PUT, Method::DELETE, Method::OPTIONS, Method::HEAD]), sim.pick(&[Version::HTTP_11, Version::HTTP_2]), Some(web_ct)),
        // (content-types that merely resemble a grpc-web type — parameters, spacing, case, prefixes — are "other")
        2 => (sim.pick(&[Method::GET, Method::POST]), sim.pick(&[Version::HTTP_11, Version::HTTP_10]), sim.pick(&[Some("application/grpc"), Some("text/html"), None, Some("application/grpc-web-foo"), Some("application/grpc-web; charset=utf-8"), Some("application/grpc-web-text; charset=utf-8"), Some("application/grpc-web+proto;q=1"), Some("Application/Grpc-Web"), Some("application/grpc-web+json")])),
        _ => (sim.pick(&[Method::GET, Method::POST, Method::PUT]), Version::HTTP_2, sim.pick(&[Some("application/grpc"), Some("text/html"), None, Some("application/grpc+proto"), Some("application/grpc-web; charset=utf-8"), Some("application/grpc-web-text; charset=utf-8"), Some("application/grpc-web-text+proto ;x"), Some("application/grpc-webx")])),
    };
    let outer_bytes: Vec<u8> = if kind == 0 && text_req { indep::b64_encode(&req_grpc, true).into_bytes() } else { req_grpc.clone() };
    let chunks = cut_bytes(sim, &outer_bytes, &[0, 4, 8]);
    let mut req = http::Request::new(SimBody::new(sim, "outer-req", chunks.into_iter().map(Ev::Data).collect(), sim.pick(&[0u64, 30]), sim.chance(1, 3)));
    *req.method_mut() = method.clone();
    *req.version_mut() = version;
    *req.uri_mut() = "/pkg.Svc/Method?x=1".parse().unwrap();
    if let Some(ct) = ct {
        req.headers_mut().insert("content-type", ct.parse().unwrap());
    }
    if let Some(a) = accept {
        req.headers_mut().insert("accept", a.parse().unwrap());
    }
    req.headers_mut().insert("x-user", "u1".parse().unwrap());
    req.headers_mut().append("x-user", "u2".parse().unwrap());
    // hop-by-hop and probing headers an HTTP/1 client or a load balancer may add: they change
    // nothing about what kind of request this is
    if sim.chance(1, 4) {
        match sim.draw(3) {
            0 => {
                req.headers_mut().insert("upgrade", sim.pick(&["h2c", "websocket"]).parse().unwrap());
                req.headers_mut().insert("connection", "Upgrade".parse().unwrap());
            }
            1 => {
                req.headers_mut().insert("connection", "keep-alive".parse().unwrap());
            }
            _ => {
                req.headers_mut().insert("x-forwarded-proto", "https".parse().unwrap());
                req.headers_mut().insert("content-length", outer_bytes.len().to_string().parse().unwrap());
            }
        }
        sim.probe("extra-hop-headers-on-request");
    }
    let sent_headers = req.headers().clone();
    sim.nontrivial();
    sim.sample(|| format!("kind={kind} {method} {version:?} content-type={ct:?} accept={accept:?} req_grpc={}B resp frames={nresp} ({}B) trailers={:?} trailers_only={trailers_only}", req_grpc.len(), resp_grpc.len(), trailers.iter().map(|(k, v)| format!("{k}:{}", String::from_utf8_lossy(v))).collect::<Vec<_>>()));
    sim.ev(|| format!("config: kind={kind} {method} {version:?} content-type={ct:?} accept={accept:?} req_grpc={}B resp={}B trailers_only={trailers_only}", req_grpc.len(), resp_grpc.len()));

    let fut = tower_service::Service::call(&mut svc, req);
    let mut fut = std::pin::pin!(fut);
    let resp = match drive(sim, fut.as_mut(), 2_000_000) {
        Drive::Done(Ok(r)) => r,
        Drive::Done(Err(e)) => match e {},
        Drive::Hang { polls } => return sim.violation("lost-wakeup", format!("layer future Pending with no wake-up after {polls} polls")),
        Drive::Budget { polls } => return sim.violation("livelock", format!("layer future not finished after {polls} polls")),
        Drive::Stalled { .. } => return,
    };
    let (parts, body) = resp.into_parts();
    let mut b: Pin<Box<dyn http_body::Body<Data = Bytes, Error = tonic::Status>>> = Box::pin(body);
    let obs = consume_body(sim, &mut b, 0);
    match obs.ended_by {
        "hang" => return sim.violation("lost-wakeup", "response body Pending with no wake-up".into()),
        "livelock" => return sim.violation("livelock", "response body never finished".into()),
        _ => {}
    }
    let seen = seen.lock().unwrap().clone();
    match kind {
        1 => {
            sim.probe("non-post-grpc-web");
            if parts.status != StatusCode::METHOD_NOT_ALLOWED {
                sim.violation("non-post-grpc-web-not-405", format!("{method} with {web_ct}: status {}", parts.status));
            }
            if seen.calls != 0 {
                sim.violation("inner-invoked-for-rejected-request", format!("{method} grpc-web request reached the inner service"));
            }
        }
        2 => {
            sim.probe("other-http1");
            if parts.status != StatusCode::BAD_REQUEST {
                sim.violation("other-http1-not-400", format!("{method} {version:?} content-type {ct:?}: status {}", parts.status));
            }
            if seen.calls != 0 {
                sim.violation("inner-invoked-for-rejected-request", format!("HTTP/1 non-grpc-web request reached the inner service"));
            }
        }
        3 => {
            sim.probe("other-http2-passthrough");
            if seen.calls != 1 || seen.method.as_ref() != Some(&method) || seen.uri.as_ref().map(|u| u.to_string()) != Some("/pkg.Svc/Method?x=1".into()) || seen.headers != sent_headers || seen.body != req_grpc {
                sim.violation("http2-passthrough-request-altered", format!("inner saw calls={} method={:?} uri={:?} headers={:?} body {}B (sent {}B, headers {:?})", seen.calls, seen.method, seen.uri, seen.headers, seen.body.len(), req_grpc.len(), sent_headers));
            }
            let want_headers = header_map(&resp_headers);
            if parts.status != StatusCode::OK || parts.headers != want_headers {
                sim.violation("http2-passthrough-response-altered", format!("status {} headers {:?}, inner sent {:?}", parts.status, parts.headers, want_headers));
            }
            if obs.data() != if trailers_only { vec![] } else { resp_grpc.clone() } {
                sim.violation("http2-passthrough-response-altered", format!("body {}B, inner sent {}B", obs.data().len(), resp_grpc.len()));
            }
            if !trailers_only {
                let got: Vec<(String, Vec<u8>)> = obs.trailers().first().map(|t| t.iter().map(|(k, v)| (k.as_str().to_string(), v.as_bytes().to_vec())).collect()).unwrap_or_default();
                if sorted(got.clone()) != sorted(trailers.clone()) {
                    sim.violation("http2-passthrough-response-altered", format!("trailers {:?}, inner sent {:?}", got, trailers));
                }
            }
        }
        _ => {
            // ---- request translation
            if seen.calls != 1 {
                return sim.violation("grpc-web-request-not-forwarded", format!("inner service calls = {} (status {})", seen.calls, parts.status));
            }
            if let Some(e) = &seen.body_err {
                sim.violation("grpc-web-request-body-error", format!("inner service's request body failed: {e}"));
            } else if seen.body != req_grpc {
                sim.violation("grpc-web-request-bytes-altered", format!("inner received {}B, original gRPC bytes {}B (text={text_req})", seen.body.len(), req_grpc.len()));
            }
            if seen.headers.get("content-type").map(|v| v.as_bytes()) != Some(b"application/grpc") {
                sim.violation("grpc-web-request-content-type-not-grpc", format!("inner saw content-type {:?}", seen.headers.get("content-type")));
            }
            if text_req {
                sim.probe("text-request");
            }
            // ---- response translation
            let want_ct: &[u8] = if text_resp { b"application/grpc-web-text+proto" } else { b"application/grpc-web+proto" };
            if parts.headers.get("content-type").map(|v| v.as_bytes()) != Some(want_ct) {
                sim.violation("grpc-web-response-content-type-wrong", format!("accept {accept:?}: response content-type {:?}", parts.headers.get("content-type")));
            }
            if let Some((c, m)) = obs.error() {
                return sim.violation("grpc-web-response-body-error", format!("{c:?} {m:?}"));
            }
            if !obs.trailers().is_empty() {
                sim.violation("grpc-web-response-has-http-trailers", "the grpc-web body must carry trailers in-band".into());
            }
            let raw = obs.data();
            let decoded = if text_resp {
                sim.probe("text-response");
                match indep::b64_decode_concat(&raw) {
                    Ok(d) => d,
                    Err(e) => return sim.violation("grpc-web-text-response-not-base64", format!("{e}")),
                }
            } else {
                raw
            };
            let (frames, end) = indep::parse_frames(&decoded);
            if end != indep::ParseEnd::Clean {
                return sim.violation("grpc-web-response-not-well-framed", format!("{}B decode to frames with a partial tail ({end:?})", decoded.len()));
            }
            let n_tr = frames.iter().filter(|f| f.flag & 0x80 != 0).count();
            let msg_bytes: Vec<u8> = frames.iter().filter(|f| f.flag & 0x80 == 0).flat_map(|f| indep::frame(f.flag, &f.payload)).collect();
            if trailers_only {
                if !decoded.is_empty() {
                    sim.violation("grpc-web-trailers-only-response-has-body", format!("{}B", decoded.len()));
                }
                return;
            }
            if msg_bytes != resp_grpc {
                sim.violation("grpc-web-response-messages-altered", format!("decoded message bytes {}B, inner sent {}B", msg_bytes.len(), resp_grpc.len()));
            }
            if n_tr != 1 || frames.last().map(|f| f.flag) != Some(0x80) {
                return sim.violation("grpc-web-response-not-exactly-one-final-trailers-frame", format!("{n_tr} trailers frames; flags {:?}", frames.iter().map(|f| f.flag).collect::<Vec<_>>()));
            }
            match parse_trailer_block(&frames.last().unwrap().payload) {
                Ok(got) => {
                    if sorted(got.clone()) != sorted(trailers.clone()) {
                        sim.violation("grpc-web-response-trailers-altered", format!("trailers frame lists {:?}, inner sent {:?}", got.iter().map(|(k, v)| format!("{k}:{}", String::from_utf8_lossy(v))).collect::<Vec<_>>(), trailers.iter().map(|(k, v)| format!("{k}:{}", String::from_utf8_lossy(v))).collect::<Vec<_>>()));
                    }
                }
                Err(e) => sim.violation("grpc-web-response-trailers-malformed", e),
            }
        }
    }
}
