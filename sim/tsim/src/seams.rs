//! Engine-F seams: message source, HTTP body, chunk cutter.  Everything they decide is drawn from
//! the run's `Sim`.

use bytes::Bytes;
use http::HeaderMap;
use http_body::{Body, Frame};
use simcore::{Sim, SimAbort};
use std::collections::VecDeque;
use std::pin::Pin;
use std::task::{Context, Poll};
use tokio_stream::Stream;
use tonic::{Code, Status};

pub type BoxError = Box<dyn std::error::Error + Send + Sync + 'static>;

#[derive(Clone, Debug)]
pub enum ErrKind {
    Status(Code, String),
    Io(std::io::ErrorKind),
    H2(u32),
    /// a `Status` (with details and metadata) that is not the error itself but sits behind
    /// `Error::source()` of 1..3 wrapper errors, as a tower layer or a transport would hand it over
    Nested(crate::gen::StatusSpec, u8),
}

#[derive(Debug)]
pub struct WrapperError(pub BoxError);

impl std::fmt::Display for WrapperError {
    fn fmt(&self, f: &mut std::fmt::Formatter<'_>) -> std::fmt::Result {
        write!(f, "wrapper error")
    }
}

impl std::error::Error for WrapperError {
    fn source(&self) -> Option<&(dyn std::error::Error + 'static)> {
        Some(&*self.0)
    }
}

impl ErrKind {
    pub fn to_box(&self) -> BoxError {
        match self {
            ErrKind::Status(c, m) => Box::new(Status::new(*c, m.clone())),
            ErrKind::Io(k) => Box::new(std::io::Error::new(*k, "simulated io error")),
            ErrKind::H2(r) => Box::new(h2::Error::from(h2::Reason::from(*r))),
            ErrKind::Nested(spec, depth) => {
                let mut e: BoxError = Box::new(spec.build());
                for _ in 0..*depth {
                    e = Box::new(WrapperError(e));
                }
                e
            }
        }
    }
    pub fn draw(sim: &Sim) -> ErrKind {
        match sim.draw(4) {
            0 => ErrKind::Status(Code::from_i32(sim.range(1, 16) as i32), "injected".into()),
            1 => ErrKind::Io(sim.pick(&[
                std::io::ErrorKind::ConnectionReset,
                std::io::ErrorKind::BrokenPipe,
                std::io::ErrorKind::UnexpectedEof,
                std::io::ErrorKind::TimedOut,
            ])),
            2 => ErrKind::H2(sim.range(0, 14) as u32),
            _ => ErrKind::Status(Code::Cancelled, "cancelled".into()),
        }
    }
}

#[derive(Clone, Debug)]
pub enum Ev {
    Data(Bytes),
    Trailers(HeaderMap),
    Err(ErrKind),
    /// The peer goes silent: Pending forever, no wake-up (legitimate stall, not a hang of the SUT).
    Stall,
}

/// The data buffer of scripted bodies: a `Buf` is not necessarily one contiguous slice.  In
/// segmenting bodies a DATA frame is handed over as 2..3 non-contiguous segments; `chunk()` is
/// only the first of them.
#[derive(Clone, Debug, Default)]
pub struct SegBuf {
    segs: VecDeque<Bytes>,
}

impl SegBuf {
    pub fn one(b: Bytes) -> SegBuf {
        SegBuf { segs: VecDeque::from([b]) }
    }
    pub fn of(parts: Vec<Bytes>) -> SegBuf {
        SegBuf { segs: parts.into() }
    }
    pub fn to_vec(&self) -> Vec<u8> {
        self.segs.iter().flat_map(|b| b.iter().copied()).collect()
    }
}

impl bytes::Buf for SegBuf {
    fn remaining(&self) -> usize {
        self.segs.iter().map(|b| b.len()).sum()
    }
    fn chunk(&self) -> &[u8] {
        self.segs.iter().find(|b| !b.is_empty()).map(|b| &b[..]).unwrap_or(&[])
    }
    fn advance(&mut self, mut cnt: usize) {
        while cnt > 0 {
            let front = self.segs.front_mut().expect("advance past the end of a SegBuf");
            if cnt >= front.len() {
                cnt -= front.len();
                self.segs.pop_front();
            } else {
                bytes::Buf::advance(front, cnt);
                cnt = 0;
            }
        }
        while matches!(self.segs.front(), Some(b) if b.is_empty()) {
            self.segs.pop_front();
        }
    }
}

/// A scripted body whose DATA frames are handed over as `SegBuf`s (for consumers that accept any
/// `Buf`: `Streaming::new_*`, tonic-web); whether this body segments at all is drawn once.
pub struct Segmented {
    inner: SimBody,
    segment: bool,
}

impl Segmented {
    pub fn new(inner: SimBody) -> Segmented {
        let segment = inner.sim.chance(1, 3);
        Segmented { inner, segment }
    }
}

impl Body for Segmented {
    type Data = SegBuf;
    type Error = BoxError;
    fn poll_frame(mut self: Pin<&mut Self>, cx: &mut Context<'_>) -> Poll<Option<Result<Frame<SegBuf>, BoxError>>> {
        let this = &mut *self;
        match Pin::new(&mut this.inner).poll_frame(cx) {
            Poll::Pending => Poll::Pending,
            Poll::Ready(None) => Poll::Ready(None),
            Poll::Ready(Some(Err(e))) => Poll::Ready(Some(Err(e))),
            Poll::Ready(Some(Ok(f))) => {
                let (sim, segment, name) = (this.inner.sim.clone(), this.segment, this.inner.name);
                Poll::Ready(Some(Ok(f.map_data(|mut b: Bytes| {
                    if segment && b.len() >= 2 && sim.chance(2, 3) {
                        let a = b.split_to(sim.range(1, b.len() as u64 - 1) as usize);
                        let mut parts = vec![a];
                        if b.len() >= 2 && sim.chance(1, 3) {
                            parts.push(b.split_to(sim.range(1, b.len() as u64 - 1) as usize));
                        }
                        parts.push(b);
                        sim.fault("body-data-segmented");
                        sim.ev(|| format!("body[{name}]:   handed over as {} non-contiguous segments {:?}", parts.len(), parts.iter().map(|p| p.len()).collect::<Vec<_>>()));
                        SegBuf::of(parts)
                    } else {
                        SegBuf::one(b)
                    }
                }))))
            }
        }
    }
    fn is_end_stream(&self) -> bool {
        self.inner.is_end_stream()
    }
    fn size_hint(&self) -> http_body::SizeHint {
        self.inner.size_hint()
    }
}

/// Scripted `http_body::Body`.
pub struct SimBody {
    sim: Sim,
    evs: VecDeque<Ev>,
    pending_pct: u64,
    ended: bool,
    pub polls_after_end: u32,
    end_hint: bool,
    name: &'static str,
    consec_pending: u32,
    hint: SizeHint,
}

/// What the scripted body answers to `size_hint()` (over hyper: the peer-supplied content-length,
/// available before any DATA frame and not bounded by anything).
#[derive(Clone, Copy, Debug, PartialEq, Eq)]
pub enum SizeHint {
    /// the default: nothing known
    Unknown,
    /// exactly the number of DATA bytes still to come
    ExactTrue,
    /// an exact length the peer merely announces
    Announced(u64),
}

/// No seam returns Pending more than this many times in a row (keeps replays of exhausted tapes,
/// where every draw is 0, from looking like a livelock of the code under test).
pub const MAX_CONSEC_PENDING: u32 = 6;

impl SimBody {
    pub fn new(sim: &Sim, name: &'static str, evs: Vec<Ev>, pending_pct: u64, end_hint: bool) -> SimBody {
        SimBody {
            sim: sim.clone(),
            evs: evs.into(),
            pending_pct,
            ended: false,
            polls_after_end: 0,
            end_hint,
            name,
            consec_pending: 0,
            hint: SizeHint::Unknown,
        }
    }
    pub fn with_size_hint(mut self, hint: SizeHint) -> SimBody {
        self.hint = hint;
        self
    }
}

pub const AFTER_END_POLL_CAP: u32 = 48;

impl Body for SimBody {
    type Data = Bytes;
    type Error = BoxError;

    fn poll_frame(mut self: Pin<&mut Self>, cx: &mut Context<'_>) -> Poll<Option<Result<Frame<Bytes>, BoxError>>> {
        let this = &mut *self;
        this.sim.step();
        if this.ended {
            this.polls_after_end += 1;
            this.sim.probe("body-polled-after-end");
            if this.polls_after_end > AFTER_END_POLL_CAP {
                std::panic::panic_any(SimAbort {
                    class: "busy-loop-on-finished-body".into(),
                    detail: format!("body `{}` polled {} times after it had ended", this.name, this.polls_after_end),
                });
            }
            return Poll::Ready(None);
        }
        if matches!(this.evs.front(), Some(Ev::Stall)) {
            this.sim.set_stalled(true);
            this.sim.ev(|| format!("body[{}]: stalls forever", this.name));
            return Poll::Pending;
        }
        if this.pending_pct > 0 && this.consec_pending < MAX_CONSEC_PENDING && this.sim.chance(this.pending_pct, 100) {
            this.consec_pending += 1;
            this.sim.fault("body-pending");
            this.sim.ev(|| format!("body[{}]: Pending", this.name));
            cx.waker().wake_by_ref();
            return Poll::Pending;
        }
        this.consec_pending = 0;
        match this.evs.pop_front() {
            None => {
                this.ended = true;
                this.sim.ev(|| format!("body[{}]: end", this.name));
                Poll::Ready(None)
            }
            Some(Ev::Data(b)) => {
                this.sim.ev(|| format!("body[{}]: data {} bytes {}", this.name, b.len(), hex_head(&b)));
                Poll::Ready(Some(Ok(Frame::data(b))))
            }
            Some(Ev::Trailers(t)) => {
                this.sim.ev(|| format!("body[{}]: trailers {:?}", this.name, t));
                Poll::Ready(Some(Ok(Frame::trailers(t))))
            }
            Some(Ev::Err(k)) => {
                this.ended = true;
                this.sim.fault("body-error");
                this.sim.ev(|| format!("body[{}]: error {:?}", this.name, k));
                Poll::Ready(Some(Err(k.to_box())))
            }
            Some(Ev::Stall) => unreachable!(),
        }
    }

    fn is_end_stream(&self) -> bool {
        self.end_hint && !self.ended && self.evs.is_empty()
    }

    fn size_hint(&self) -> http_body::SizeHint {
        match self.hint {
            SizeHint::Unknown => http_body::SizeHint::default(),
            SizeHint::ExactTrue => http_body::SizeHint::with_exact(self.evs.iter().map(|e| if let Ev::Data(b) = e { b.len() as u64 } else { 0 }).sum()),
            SizeHint::Announced(n) => http_body::SizeHint::with_exact(n),
        }
    }
}

pub fn hex_head(b: &[u8]) -> String {
    let mut s = String::new();
    for x in b.iter().take(12) {
        s.push_str(&format!("{x:02x}"));
    }
    if b.len() > 12 {
        s.push_str("..");
    }
    s
}

/// Scripted message source.
pub struct SimSource<T> {
    sim: Sim,
    items: VecDeque<Result<T, Status>>,
    pending_pct: u64,
    done: bool,
    pub polls_after_done: u32,
    consec_pending: u32,
    /// what this (unfused) stream does when polled again after it returned `None`: a `Stream` may
    /// then "panic, block forever, or cause other kinds of problems"; this one blocks forever
    after_end_blocks: bool,
}

impl<T> SimSource<T> {
    pub fn new(sim: &Sim, items: Vec<Result<T, Status>>, pending_pct: u64) -> Self {
        SimSource {
            sim: sim.clone(),
            items: items.into(),
            pending_pct,
            done: false,
            polls_after_done: 0,
            consec_pending: 0,
            after_end_blocks: sim.chance(1, 2),
        }
    }
}

impl<T: Unpin> Stream for SimSource<T> {
    type Item = Result<T, Status>;
    fn poll_next(mut self: Pin<&mut Self>, cx: &mut Context<'_>) -> Poll<Option<Self::Item>> {
        let this = &mut *self;
        this.sim.step();
        if this.done {
            this.polls_after_done += 1;
            this.sim.probe("source-polled-after-end");
            if this.after_end_blocks {
                this.sim.ev(|| "source: polled again after it returned None -> this unfused stream blocks forever".to_string());
                return Poll::Pending;
            }
            if this.polls_after_done > AFTER_END_POLL_CAP {
                std::panic::panic_any(SimAbort {
                    class: "busy-loop-on-finished-source".into(),
                    detail: format!("message source polled {} times after it had ended", this.polls_after_done),
                });
            }
            return Poll::Ready(None);
        }
        if this.pending_pct > 0 && this.consec_pending < MAX_CONSEC_PENDING && this.sim.chance(this.pending_pct, 100) {
            this.consec_pending += 1;
            this.sim.fault("source-pending");
            this.sim.ev(|| "source: Pending".to_string());
            cx.waker().wake_by_ref();
            return Poll::Pending;
        }
        this.consec_pending = 0;
        match this.items.pop_front() {
            None => {
                this.done = true;
                this.sim.ev(|| "source: end".to_string());
                Poll::Ready(None)
            }
            Some(Ok(m)) => {
                this.sim.ev(|| "source: item".to_string());
                Poll::Ready(Some(Ok(m)))
            }
            Some(Err(s)) => {
                this.sim.fault("source-error");
                this.sim.ev(|| format!("source: error {:?} {:?}", s.code(), s.message()));
                Poll::Ready(Some(Err(s)))
            }
        }
    }
}

/// Cut `data` into chunks at drawn offsets.  `interesting` are offsets worth cutting near
/// (frame starts, prefix ends, ...).
pub fn cut_bytes(sim: &Sim, data: &[u8], interesting: &[usize]) -> Vec<Bytes> {
    let n = data.len();
    if n == 0 {
        return if sim.chance(1, 4) { vec![Bytes::new()] } else { vec![] };
    }
    let mut cuts: Vec<usize> = Vec::new();
    let mode = sim.weighted(&[2, 2, 4, 4, 2]);
    match mode {
        0 => {
            sim.probe("cut-single-chunk");
        }
        1 if n <= 2048 => {
            sim.probe("cut-one-byte-chunks");
            cuts.extend(1..n);
        }
        3 if !interesting.is_empty() => {
            let k = sim.range(1, 6);
            for _ in 0..k {
                let base = sim.pick(interesting);
                let delta = sim.pick(&[0i64, 1, 2, 3, 4, 5, 6, -1, -2]);
                let c = base as i64 + delta;
                if c > 0 && (c as usize) < n {
                    cuts.push(c as usize);
                }
            }
        }
        4 => {
            let sz = sim.pick(&[1usize, 2, 3, 4, 5, 6, 7, 16, 64, 1000, 16384]);
            let mut c = sz;
            while c < n && cuts.len() < 4096 {
                cuts.push(c);
                c += sz;
            }
        }
        _ => {
            let k = sim.range(1, 8);
            for _ in 0..k {
                cuts.push(sim.range(1, n as u64 - 1).max(1) as usize);
            }
        }
    }
    cuts.retain(|c| *c > 0 && *c < n);
    cuts.sort_unstable();
    cuts.dedup();
    if !cuts.is_empty() {
        sim.nontrivial();
    }
    let mut out = Vec::with_capacity(cuts.len() + 1);
    let mut prev = 0usize;
    let empty_chunks = sim.chance(1, 8);
    for c in cuts.iter().chain(std::iter::once(&n)) {
        out.push(Bytes::copy_from_slice(&data[prev..*c]));
        if empty_chunks && sim.chance(1, 4) {
            sim.probe("cut-empty-chunk");
            out.push(Bytes::new());
        }
        prev = *c;
    }
    // probes for where the cuts fell, relative to the interesting offsets
    for c in &cuts {
        for i in interesting {
            if *c > *i && *c < *i + 5 {
                sim.probe("cut-inside-prefix");
            }
        }
    }
    out
}

/// Couples a caller's request stream to the responses it has seen (a ping-pong conversation):
/// request k is only produced once min(k, cap) responses have arrived.
#[derive(Clone, Default)]
pub struct Gate {
    seen: std::sync::Arc<std::sync::atomic::AtomicUsize>,
    waker: std::sync::Arc<std::sync::Mutex<Option<std::task::Waker>>>,
    cap: usize,
}

impl Gate {
    pub fn new(cap: usize) -> Gate {
        Gate { cap, ..Default::default() }
    }
    /// one more response has been seen by the caller
    pub fn bump(&self) {
        self.seen.fetch_add(1, std::sync::atomic::Ordering::SeqCst);
        if let Some(w) = self.waker.lock().unwrap().take() {
            w.wake();
        }
    }
    fn open_for(&self, k: usize, cx: &mut Context<'_>) -> bool {
        if self.seen.load(std::sync::atomic::Ordering::SeqCst) >= k.min(self.cap) {
            true
        } else {
            *self.waker.lock().unwrap() = Some(cx.waker().clone());
            false
        }
    }
}

/// Plain message source for client-streaming requests (`Stream<Item = T>`), with drawn readiness.
pub struct MsgSource<T> {
    gate: Option<Gate>,
    yielded: usize,
    sim: Sim,
    items: VecDeque<T>,
    pending_pct: u64,
    done: bool,
    polls_after_done: u32,
    consec_pending: u32,
    after_end_blocks: bool,
}

impl<T> MsgSource<T> {
    pub fn new(sim: &Sim, items: Vec<T>, pending_pct: u64) -> Self {
        MsgSource { gate: None, yielded: 0, sim: sim.clone(), items: items.into(), pending_pct, done: false, polls_after_done: 0, consec_pending: 0, after_end_blocks: sim.chance(1, 2) }
    }
    pub fn with_gate(mut self, gate: Option<Gate>) -> Self {
        self.gate = gate;
        self
    }
}

impl<T: Unpin> Stream for MsgSource<T> {
    type Item = T;
    fn poll_next(mut self: Pin<&mut Self>, cx: &mut Context<'_>) -> Poll<Option<T>> {
        let this = &mut *self;
        this.sim.step();
        if this.done {
            this.polls_after_done += 1;
            this.sim.probe("source-polled-after-end");
            if this.after_end_blocks {
                this.sim.ev(|| "request source: polled again after it returned None -> this unfused stream blocks forever".to_string());
                return Poll::Pending;
            }
            if this.polls_after_done > AFTER_END_POLL_CAP {
                std::panic::panic_any(SimAbort { class: "busy-loop-on-finished-source".into(), detail: format!("request message source polled {} times after it had ended", this.polls_after_done) });
            }
            return Poll::Ready(None);
        }
        if this.pending_pct > 0 && this.consec_pending < MAX_CONSEC_PENDING && this.sim.chance(this.pending_pct, 100) {
            this.consec_pending += 1;
            this.sim.fault("source-pending");
            cx.waker().wake_by_ref();
            return Poll::Pending;
        }
        this.consec_pending = 0;
        if let (Some(g), false) = (&this.gate, this.items.is_empty()) {
            // a conversation: the next request waits for the peer's answers so far
            if !g.open_for(this.yielded, cx) {
                this.sim.probe("request-waits-for-response");
                return Poll::Pending;
            }
        }
        match this.items.pop_front() {
            None => {
                this.done = true;
                Poll::Ready(None)
            }
            Some(m) => {
                this.yielded += 1;
                Poll::Ready(Some(m))
            }
        }
    }
}
