//! Scripted handlers for the harness services (`sim.Raw` with the raw codec, `simpb.Echo` and the
//! package-less `Bare` with prost).  A handler looks its script up by the `sim-call` metadata
//! entry, records what it saw (metadata, messages, errors of the request stream) and answers as
//! scripted.

use crate::gen::{apply_md, MdEntry, StatusSpec};
use crate::nopkg::NpMsg;
use crate::pb::Msg;
use crate::rawcodec::RawMsg;
use crate::seams::SimSource;
use bytes::Bytes;
use simcore::Sim;
use std::collections::HashMap;
use std::pin::Pin;
use std::sync::{Arc, Mutex};
use std::future::Future;
use std::task::{Context, Poll};
use tokio_stream::Stream;
use tonic::metadata::MetadataMap;
use tonic::{Request, Response, Status, Streaming};

pub trait SimMsg: Send + Sync + Unpin + 'static + Sized {
    fn from_payload(tag: u64, b: &[u8]) -> Self;
    fn canon(&self) -> Vec<u8>;
}

impl SimMsg for RawMsg {
    fn from_payload(_tag: u64, b: &[u8]) -> Self {
        RawMsg(Bytes::copy_from_slice(b))
    }
    fn canon(&self) -> Vec<u8> {
        self.0.to_vec()
    }
}

impl SimMsg for Msg {
    fn from_payload(tag: u64, b: &[u8]) -> Self {
        Msg { tag, data: b.to_vec(), text: String::new(), nums: vec![] }
    }
    fn canon(&self) -> Vec<u8> {
        prost::Message::encode_to_vec(self)
    }
}

impl SimMsg for NpMsg {
    fn from_payload(tag: u64, b: &[u8]) -> Self {
        NpMsg { tag, data: b.to_vec() }
    }
    fn canon(&self) -> Vec<u8> {
        prost::Message::encode_to_vec(self)
    }
}

#[derive(Clone, Debug, Default)]
pub struct Script {
    pub initial_md: Vec<MdEntry>,
    /// response payloads (for unary / client-streaming exactly one is used when `end` is OK)
    pub msgs: Vec<Vec<u8>>,
    pub tag: u64,
    /// None = OK
    pub end: Option<StatusSpec>,
    /// the handler function itself returns the error (trailers-only response)
    pub fail_at_call: bool,
    pub src_pending: u64,
    pub disable_compression: bool,
    /// streaming requests: 0 = read everything first, 1 = answer without reading,
    /// 2 = interleave (read one request message between two response messages)
    pub read_mode: u8,
    /// streaming responses that end in OK: trailing metadata, attached by ending the stream with
    /// `Err(Status::with_metadata(Code::Ok, ..))`
    pub ok_trailing_md: Vec<MdEntry>,
    /// engine N only: virtual-time latency before the handler answers (u64::MAX = never answers)
    pub latency_us: u64,
    /// engine N only: virtual-time gap before each streamed response message
    pub gap_us: u64,
}

#[derive(Clone, Debug, Default)]
pub struct CallLog {
    pub method: &'static str,
    pub md: Option<MetadataMap>,
    pub msgs: Vec<Vec<u8>>,
    pub req_error: Option<String>,
    pub req_stream_ended: bool,
    pub conn_id: Option<usize>,
}

#[derive(Default)]
pub struct HState {
    pub scripts: HashMap<u64, Script>,
    pub logs: HashMap<u64, CallLog>,
    pub entered: Vec<u64>,
    pub unknown_calls: u32,
}

#[derive(Clone)]
pub struct Handler {
    pub sim: Sim,
    pub st: Arc<Mutex<HState>>,
    /// notified on every handler entry (engine N: event-placed faults)
    pub notify: Arc<tokio::sync::Notify>,
}

impl Handler {
    pub fn new(sim: &Sim) -> Handler {
        Handler { sim: sim.clone(), st: Arc::new(Mutex::new(HState::default())), notify: Arc::new(tokio::sync::Notify::new()) }
    }
    pub fn add_script(&self, id: u64, s: Script) {
        self.st.lock().unwrap().scripts.insert(id, s);
    }
    pub fn log(&self, id: u64) -> Option<CallLog> {
        self.st.lock().unwrap().logs.get(&id).cloned()
    }
    pub fn entered(&self) -> Vec<u64> {
        self.st.lock().unwrap().entered.clone()
    }

    fn enter(&self, method: &'static str, md: &MetadataMap) -> Result<(u64, Script), Status> {
        let id = md.get("sim-call").and_then(|v| v.to_str().ok()).and_then(|s| s.parse::<u64>().ok());
        let mut st = self.st.lock().unwrap();
        let Some(id) = id else {
            st.unknown_calls += 1;
            return Err(Status::failed_precondition("harness: request without sim-call metadata"));
        };
        st.entered.push(id);
        self.notify.notify_waiters();
        self.sim.ev(|| format!("handler: enter {method} call {id} (read_mode {:?})", st.scripts.get(&id).map(|s| s.read_mode)));
        st.logs.insert(id, CallLog { method, md: Some(md.clone()), ..Default::default() });
        match st.scripts.get(&id) {
            Some(s) => Ok((id, s.clone())),
            None => Err(Status::failed_precondition("harness: no script for call")),
        }
    }

    async fn latency(&self, s: &Script) {
        if s.latency_us == u64::MAX {
            std::future::pending::<()>().await;
        } else if s.latency_us > 0 {
            tokio::time::sleep(std::time::Duration::from_micros(s.latency_us)).await;
        }
    }

    fn note_conn(&self, id: u64, ext: &http::Extensions) {
        if let Some(ci) = ext.get::<simnet::SimConnInfo>() {
            if let Some(l) = self.st.lock().unwrap().logs.get_mut(&id) {
                l.conn_id = Some(ci.conn_id);
            }
        }
    }

    fn note_msg(&self, id: u64, m: Vec<u8>) {
        self.sim.ev(|| format!("handler: call {id} request message {}B", m.len()));
        if let Some(l) = self.st.lock().unwrap().logs.get_mut(&id) {
            l.msgs.push(m);
        }
    }
    fn note_req_end(&self, id: u64, err: Option<String>) {
        self.sim.ev(|| format!("handler: call {id} request stream ended: {:?}", err));
        if let Some(l) = self.st.lock().unwrap().logs.get_mut(&id) {
            l.req_stream_ended = err.is_none();
            l.req_error = err;
        }
    }

    fn response_head<T>(&self, s: &Script, body: T) -> Response<T> {
        let mut r = Response::new(body);
        apply_md(r.metadata_mut(), &s.initial_md);
        if s.disable_compression {
            r.disable_compression();
        }
        r
    }

    fn items<M: SimMsg>(&self, s: &Script) -> Vec<Result<M, Status>> {
        let mut v: Vec<Result<M, Status>> = s.msgs.iter().map(|b| Ok(M::from_payload(s.tag, b))).collect();
        if let Some(e) = &s.end {
            v.push(Err(e.build()));
        } else if !s.ok_trailing_md.is_empty() {
            let mut md = MetadataMap::new();
            apply_md(&mut md, &s.ok_trailing_md);
            v.push(Err(Status::with_metadata(tonic::Code::Ok, "", md)));
        }
        v
    }

    pub async fn unary<M: SimMsg>(&self, method: &'static str, req: Request<M>) -> Result<Response<M>, Status> {
        let (id, s) = self.enter(method, req.metadata())?;
        self.note_conn(id, req.extensions());
        self.note_msg(id, req.get_ref().canon());
        self.note_req_end(id, None);
        self.latency(&s).await;
        match &s.end {
            Some(e) => Err(e.build()),
            None => Ok(self.response_head(&s, M::from_payload(s.tag, s.msgs.first().map(|v| &v[..]).unwrap_or(&[])))),
        }
    }

    pub async fn client_stream<M: SimMsg>(&self, method: &'static str, req: Request<Streaming<M>>) -> Result<Response<M>, Status> {
        let (id, s) = self.enter(method, req.metadata())?;
        self.note_conn(id, req.extensions());
        let mut stream = req.into_inner();
        self.latency(&s).await;
        if s.read_mode != 1 {
            loop {
                match stream.message().await {
                    Ok(Some(m)) => self.note_msg(id, m.canon()),
                    Ok(None) => {
                        self.note_req_end(id, None);
                        break;
                    }
                    Err(e) => {
                        self.note_req_end(id, Some(format!("{:?}: {}", e.code(), e.message())));
                        return Err(e);
                    }
                }
            }
        }
        match &s.end {
            Some(e) => Err(e.build()),
            None => Ok(self.response_head(&s, M::from_payload(s.tag, s.msgs.first().map(|v| &v[..]).unwrap_or(&[])))),
        }
    }

    pub async fn server_stream<M: SimMsg>(&self, method: &'static str, req: Request<M>) -> Result<Response<OutStream<M>>, Status> {
        let (id, s) = self.enter(method, req.metadata())?;
        self.note_conn(id, req.extensions());
        self.note_msg(id, req.get_ref().canon());
        self.note_req_end(id, None);
        self.latency(&s).await;
        if s.fail_at_call {
            if let Some(e) = &s.end {
                return Err(e.build());
            }
        }
        let src = SimSource::new(&self.sim, self.items::<M>(&s), s.src_pending);
        Ok(self.response_head(&s, OutStream { tail: src, req: None, h: self.clone(), id, alternate: false, tail_done: false, gap_us: s.gap_us, sleeping: None, held: None, finished: false }))
    }

    pub async fn bidi<M: SimMsg>(&self, method: &'static str, req: Request<Streaming<M>>) -> Result<Response<OutStream<M>>, Status> {
        let (id, s) = self.enter(method, req.metadata())?;
        self.note_conn(id, req.extensions());
        let mut stream = req.into_inner();
        self.latency(&s).await;
        if s.fail_at_call {
            if let Some(e) = &s.end {
                return Err(e.build());
            }
        }
        let mut keep: Option<Streaming<M>> = None;
        match s.read_mode {
            1 => {}
            2 => keep = Some(stream),
            _ => loop {
                match stream.message().await {
                    Ok(Some(m)) => self.note_msg(id, m.canon()),
                    Ok(None) => {
                        self.note_req_end(id, None);
                        break;
                    }
                    Err(e) => {
                        self.note_req_end(id, Some(format!("{:?}: {}", e.code(), e.message())));
                        return Err(e);
                    }
                }
            },
        }
        let src = SimSource::new(&self.sim, self.items::<M>(&s), s.src_pending);
        Ok(self.response_head(&s, OutStream { tail: src, req: keep, h: self.clone(), id, alternate: false, tail_done: false, gap_us: s.gap_us, sleeping: None, held: None, finished: false }))
    }
}

/// Response stream: scripted items; in interleaved mode one request message is read (and logged)
/// between two response items, the rest of the request stream after the last item.
pub struct OutStream<M: SimMsg> {
    tail: SimSource<M>,
    req: Option<Streaming<M>>,
    h: Handler,
    id: u64,
    alternate: bool,
    tail_done: bool,
    gap_us: u64,
    sleeping: Option<Pin<Box<tokio::time::Sleep>>>,
    held: Option<Result<M, Status>>,
    /// `None` has been returned; the scripted tail decides what a further poll does (it may block)
    finished: bool,
}

impl<M: SimMsg> Stream for OutStream<M> {
    type Item = Result<M, Status>;
    fn poll_next(mut self: Pin<&mut Self>, cx: &mut Context<'_>) -> Poll<Option<Self::Item>> {
        let this = &mut *self;
        if this.finished {
            // an unfused stream polled after its end: whatever the scripted source does then
            return Pin::new(&mut this.tail).poll_next(cx);
        }
        if let Some(sl) = this.sleeping.as_mut() {
            match sl.as_mut().poll(cx) {
                Poll::Pending => return Poll::Pending,
                Poll::Ready(()) => {
                    this.sleeping = None;
                    if let Some(x) = this.held.take() {
                        this.alternate = true;
                        return Poll::Ready(Some(x));
                    }
                }
            }
        }
        if this.alternate {
            if let Some(r) = this.req.as_mut() {
                match Pin::new(r).poll_next(cx) {
                    Poll::Pending => return Poll::Pending,
                    Poll::Ready(Some(Ok(m))) => {
                        this.h.note_msg(this.id, m.canon());
                        this.alternate = false;
                    }
                    Poll::Ready(Some(Err(e))) => {
                        this.h.note_req_end(this.id, Some(format!("{:?}: {}", e.code(), e.message())));
                        this.req = None;
                    }
                    Poll::Ready(None) => {
                        this.h.note_req_end(this.id, None);
                        this.req = None;
                    }
                }
            }
        }
        let t = if this.tail_done { Poll::Ready(None) } else { Pin::new(&mut this.tail).poll_next(cx) };
        {
            let (id, td, alt, hasreq) = (this.id, this.tail_done, this.alternate, this.req.is_some());
            this.h.sim.ev(|| format!("handler: call {id} response stream polled (tail_done={td} alternate={alt} request_stream_held={hasreq}) -> tail {}", match &t { Poll::Ready(Some(_)) => "item", Poll::Ready(None) => "end", Poll::Pending => "pending" }));
        }
        match t {
            Poll::Ready(Some(x)) => {
                if this.gap_us > 0 {
                    // engine N: a virtual-time gap before each streamed item
                    let mut sl = Box::pin(tokio::time::sleep(std::time::Duration::from_micros(this.gap_us)));
                    if sl.as_mut().poll(cx).is_pending() {
                        this.held = Some(x);
                        this.sleeping = Some(sl);
                        return Poll::Pending;
                    }
                }
                this.alternate = true;
                Poll::Ready(Some(x))
            }
            Poll::Ready(None) => {
                this.tail_done = true;
                // drain what is left of the request stream before ending the response
                while let Some(r) = this.req.as_mut() {
                    match Pin::new(r).poll_next(cx) {
                        Poll::Pending => return Poll::Pending,
                        Poll::Ready(Some(Ok(m))) => this.h.note_msg(this.id, m.canon()),
                        Poll::Ready(Some(Err(e))) => {
                            this.h.note_req_end(this.id, Some(format!("{:?}: {}", e.code(), e.message())));
                            this.req = None;
                        }
                        Poll::Ready(None) => {
                            this.h.note_req_end(this.id, None);
                            this.req = None;
                        }
                    }
                }
                this.finished = true;
                Poll::Ready(None)
            }
            Poll::Pending => Poll::Pending,
        }
    }
}

#[tonic::async_trait]
impl crate::rawsvc::raw_server::Raw for Handler {
    async fn unary(&self, r: Request<RawMsg>) -> Result<Response<RawMsg>, Status> {
        Handler::unary(self, "/sim.Raw/Unary", r).await
    }
    async fn client_stream(&self, r: Request<Streaming<RawMsg>>) -> Result<Response<RawMsg>, Status> {
        Handler::client_stream(self, "/sim.Raw/ClientStream", r).await
    }
    type ServerStreamStream = OutStream<RawMsg>;
    async fn server_stream(&self, r: Request<RawMsg>) -> Result<Response<OutStream<RawMsg>>, Status> {
        Handler::server_stream(self, "/sim.Raw/ServerStream", r).await
    }
    type BidiStream = OutStream<RawMsg>;
    async fn bidi(&self, r: Request<Streaming<RawMsg>>) -> Result<Response<OutStream<RawMsg>>, Status> {
        Handler::bidi(self, "/sim.Raw/Bidi", r).await
    }
}

#[tonic::async_trait]
impl crate::pb::echo_server::Echo for Handler {
    async fn unary(&self, r: Request<Msg>) -> Result<Response<Msg>, Status> {
        Handler::unary(self, "/simpb.Echo/Unary", r).await
    }
    async fn client_stream(&self, r: Request<Streaming<Msg>>) -> Result<Response<Msg>, Status> {
        Handler::client_stream(self, "/simpb.Echo/ClientStream", r).await
    }
    type ServerStreamStream = OutStream<Msg>;
    async fn server_stream(&self, r: Request<Msg>) -> Result<Response<OutStream<Msg>>, Status> {
        Handler::server_stream(self, "/simpb.Echo/ServerStream", r).await
    }
    type BidiStream = OutStream<Msg>;
    async fn bidi(&self, r: Request<Streaming<Msg>>) -> Result<Response<OutStream<Msg>>, Status> {
        Handler::bidi(self, "/simpb.Echo/Bidi", r).await
    }
}

#[tonic::async_trait]
impl crate::nopkg::bare_server::Bare for Handler {
    async fn unary(&self, r: Request<NpMsg>) -> Result<Response<NpMsg>, Status> {
        Handler::unary(self, "/Bare/Unary", r).await
    }
    type ServerStreamStream = OutStream<NpMsg>;
    async fn server_stream(&self, r: Request<NpMsg>) -> Result<Response<OutStream<NpMsg>>, Status> {
        Handler::server_stream(self, "/Bare/ServerStream", r).await
    }
}
