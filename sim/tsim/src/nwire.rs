//! Engine-N scenarios over real hyper/h2: concurrent multiplexed calls (C02), calls under a
//! connection kill (C02 relaxed), and the true wire views through raw h2 peers (C03, C04, C08).

use crate::c02::{self, gen_comp_consistent, gen_plan, CallPlan, CompCfg, Observed, SHAPES};
use crate::c03;
use crate::gen::{self, gen_md, gen_status, md_summary, CANARY};
use crate::handlers::{Handler, Script, SimMsg};
use crate::indep::{self, Enc};
use crate::nharness::{connect, draw_h2_opts, net_and_connector, run_sim, spawn_server, ClientOpts, ServerOpts};
use crate::nopkg::NpMsg;
use crate::pb::Msg;
use crate::rawcodec::RawMsg;
use crate::rawh2::{raw_client_call, spawn_raw_server, RawScript, ReqRecord, RespStep};
use bytes::Bytes;
use simcore::Sim;
use simnet::{KillKind, NetCfg};
use std::sync::{Arc, Mutex};
use std::time::Duration;
use tonic::transport::Channel;
use tonic::Code;

async fn perform_on(sim: &Sim, svc: usize, ch: Channel, comp: &CompCfg, p: &CallPlan) -> Observed {
    match svc {
        0 => {
            let mut c = c02::configure!(crate::rawsvc::raw_client::RawClient::new(ch), comp, client);
            c02::perform::<RawMsg, _>(sim, &mut c, p).await
        }
        1 => {
            let mut c = c02::configure!(crate::pb::echo_client::EchoClient::new(ch), comp, client);
            c02::perform::<Msg, _>(sim, &mut c, p).await
        }
        _ => {
            let mut c = c02::configure!(crate::nopkg::bare_client::BareClient::new(ch), comp, client);
            c02::perform::<NpMsg, _>(sim, &mut c, p).await
        }
    }
}

fn judge_on(sim: &Sim, svc: usize, p: &CallPlan, o: &Observed, h: &Handler) {
    match svc {
        0 => c02::judge::<RawMsg>(sim, p, o, h.log(p.id).as_ref()),
        1 => c02::judge::<Msg>(sim, p, o, h.log(p.id).as_ref()),
        _ => c02::judge::<NpMsg>(sim, p, o, h.log(p.id).as_ref()),
    }
}

struct NCall {
    conn: usize,
    svc: usize,
    start_us: u64,
    plan: CallPlan,
}

fn gen_calls(sim: &Sim, m: usize, n: usize, max_msg: usize) -> Vec<NCall> {
    (0..n)
        .map(|i| {
            let svc = sim.weighted(&[5, 4, 1]);
            let shape = if svc == 2 { sim.pick(&[0usize, 2]) } else { sim.draw(4) as usize };
            let mut plan = gen_plan(sim, i as u64 + 1, shape, max_msg);
            plan.script.gap_us = if shape >= 2 { sim.pick(&[0u64, 0, 100, 5_000]) } else { 0 };
            plan.script.latency_us = sim.pick(&[0u64, 0, 200, 10_000]);
            NCall { conn: sim.draw(m as u64) as usize, svc, start_us: sim.pick(&[0u64, 0, 0, 50, 3_000]), plan }
        })
        .collect()
}

/// C02 on engine N, fault-free: 1..3 connections, 1..8 concurrent calls multiplexed on them.
pub fn run_calls(sim: &Sim, _idx: u64) {
    let m = sim.range(1, 3) as usize;
    let n = sim.range(1, 8) as usize;
    let comp = gen_comp_consistent(sim);
    let (sopts, copts) = draw_h2_opts(sim);
    let netcfg = NetCfg::draw(sim);
    let calls = gen_calls(sim, m, n, 40_000);
    crate::rawcodec::draw_styles(sim);
    c02::draw_client_clone_mode(sim);
    crate::rawcodec::set_cfg(crate::rawcodec::RawCfg { enc_buffer: sim.pick(&[64usize, 8192]), enc_yield: sim.pick(&[0usize, 64, 32768]), dec_buffer: sim.pick(&[64usize, 8192]), dec_yield: 32768 });
    sim.sample(|| format!("connections={m} h2 server opts {sopts:?} client opts {copts:?} net {netcfg:?} comp {comp:?}; calls: {:?}", calls.iter().map(|c| format!("conn{} svc{} {} req{:?} resp{:?} end={:?}", c.conn, c.svc, SHAPES[c.plan.shape], c.plan.req_msgs.iter().map(|m| m.len()).collect::<Vec<_>>(), c.plan.script.msgs.iter().map(|m| m.len()).collect::<Vec<_>>(), c.plan.script.end.as_ref().map(|e| e.code))).collect::<Vec<_>>()));
    sim.ev(|| format!("config: connections={m} calls={n} server {sopts:?} client {copts:?} net {netcfg:?}"));
    if n > 1 {
        sim.probe("concurrent-calls");
    }
    let out = run_sim(sim, Duration::from_secs(10_000), || async {
        let (_net, connector, rx) = net_and_connector(sim, netcfg, vec![]);
        let handler = Handler::new(sim);
        for c in &calls {
            handler.add_script(c.plan.id, c.plan.script.clone());
        }
        let _srv = spawn_server::<std::future::Pending<()>>(&handler, &comp, &sopts, rx, None);
        let mut chans = vec![];
        for _ in 0..m {
            // eager connect, then let the SETTINGS exchange settle before the first call: a request
            // larger than a *shrunk* stream window sent before the peer's SETTINGS arrive can
            // wedge hyper/h2 flow control (client waits for capacity before sending END_STREAM,
            // the negative window is never replenished) — an h2/hyper corner outside these properties
            match connect(&ClientOpts { lazy: false, ..copts.clone() }, connector.clone()).await {
                Ok(c) => chans.push(c),
                Err(e) => return sim.violation("C02/setup-connect-failed", format!("{e}")),
            }
        }
        tokio::time::sleep(Duration::from_millis(200)).await;
        let results: Arc<Mutex<Vec<Option<Observed>>>> = Arc::new(Mutex::new((0..calls.len()).map(|_| None).collect()));
        let mut tasks = vec![];
        for (k, c) in calls.iter().enumerate() {
            let (sim2, ch, comp2, plan, res, svc, start) = (sim.clone(), chans[c.conn].clone(), comp.clone(), c.plan.clone(), results.clone(), c.svc, c.start_us);
            tasks.push(tokio::spawn(async move {
                if start > 0 {
                    tokio::time::sleep(Duration::from_micros(start)).await;
                }
                if let Ok(o) = tokio::time::timeout(Duration::from_secs(3600), perform_on(&sim2, svc, ch, &comp2, &plan)).await {
                    res.lock().unwrap()[k] = Some(o);
                }
            }));
        }
        for t in tasks {
            let _ = t.await;
        }
        let results = results.lock().unwrap();
        for (k, c) in calls.iter().enumerate() {
            match &results[k] {
                None => sim.violation("C02/call-hangs", format!("call {} {} on connection {} got no outcome within 3600 virtual seconds", c.plan.id, SHAPES[c.plan.shape], c.conn)),
                Some(o) => judge_on(sim, c.svc, &c.plan, o, &handler),
            }
        }
        // multiplexing really happened?
        let by_conn: Vec<usize> = (0..m).map(|i| calls.iter().filter(|c| c.conn == i).count()).collect();
        if by_conn.iter().any(|x| *x >= 2) {
            sim.probe("streams-multiplexed-on-one-connection");
        }
    });
    if out.is_none() {
        sim.violation("C02/run-hangs", "the scenario did not finish within the virtual horizon".into());
    }
}

/// C02 relaxed configuration: a connection is killed at a drawn byte offset.  A call may fail with
/// any status, but never reports success with missing or wrong data; yielded items are a prefix of
/// the true sequence; a clean end only after the true OK.
pub fn run_calls_kill(sim: &Sim, _idx: u64) {
    let n = sim.range(1, 5) as usize;
    let comp = gen_comp_consistent(sim);
    let (sopts, copts) = draw_h2_opts(sim);
    // calls on the connection opened after the kill start before its SETTINGS exchange has settled;
    // a server stream window below the HTTP/2 default would expose the h2 window-shrink wedge
    // (DESIGN.md 13.2), which is not tonic's and not part of C02
    let sopts = ServerOpts { stream_window: sopts.stream_window.filter(|w| *w >= 65_535), ..sopts };
    let netcfg = NetCfg::draw(sim);
    let calls = gen_calls(sim, 1, n, 20_000);
    let kill_at = sim.pick(&[100u64, 300, 600, 1_000, 3_000, 10_000, 40_000]) + sim.range(0, 200);
    let kind = sim.pick(&[KillKind::Eof, KillKind::Reset]);
    sim.nontrivial();
    sim.sample(|| format!("1 connection killed ({kind:?}) after {kill_at} bytes; {n} calls: {:?}", calls.iter().map(|c| format!("svc{} {} resp{:?} end={:?}", c.svc, SHAPES[c.plan.shape], c.plan.script.msgs.iter().map(|m| m.len()).collect::<Vec<_>>(), c.plan.script.end.as_ref().map(|e| e.code))).collect::<Vec<_>>()));
    sim.ev(|| format!("config: kill_at={kill_at} kind={kind:?} calls={n}"));
    let out = run_sim(sim, Duration::from_secs(10_000), || async {
        let (net, connector, rx) = net_and_connector(sim, netcfg, vec![]);
        net.arm_kill_on_next_connection(kill_at, kind);
        let handler = Handler::new(sim);
        for c in &calls {
            handler.add_script(c.plan.id, c.plan.script.clone());
        }
        let _srv = spawn_server::<std::future::Pending<()>>(&handler, &comp, &sopts, rx, None);
        // eager connect + settle (see run_calls); the kill is armed on byte counts beyond the handshake
        let ch = match connect(&ClientOpts { lazy: false, ..copts.clone() }, connector.clone()).await {
            Ok(c) => c,
            Err(_) => return,
        };
        tokio::time::sleep(Duration::from_millis(200)).await;
        let results: Arc<Mutex<Vec<Option<Observed>>>> = Arc::new(Mutex::new((0..calls.len()).map(|_| None).collect()));
        let mut tasks = vec![];
        for (k, c) in calls.iter().enumerate() {
            let (sim2, ch, comp2, plan, res, svc) = (sim.clone(), ch.clone(), comp.clone(), c.plan.clone(), results.clone(), c.svc);
            tasks.push(tokio::spawn(async move {
                if let Ok(o) = tokio::time::timeout(Duration::from_secs(3600), perform_on(&sim2, svc, ch, &comp2, &plan)).await {
                    res.lock().unwrap()[k] = Some(o);
                }
            }));
        }
        for t in tasks {
            let _ = t.await;
        }
        let killed = net.n_conns() > 0 && net.conn(0).lock().unwrap().is_killed();
        if killed {
            sim.probe("connection-killed-during-calls");
        }
        let results = results.lock().unwrap();
        for (k, c) in calls.iter().enumerate() {
            let p = &c.plan;
            let who = format!("call {} {} (connection killed after {kill_at} bytes)", p.id, SHAPES[p.shape]);
            let Some(o) = &results[k] else {
                sim.violation("C02/call-hangs-after-connection-death", format!("{who}: no outcome within 3600 virtual seconds"));
                continue;
            };
            let want: Vec<Vec<u8>> = match c.svc {
                0 => p.script.msgs.iter().map(|b| RawMsg::from_payload(p.script.tag, b).canon()).collect(),
                1 => p.script.msgs.iter().map(|b| Msg::from_payload(p.script.tag, b).canon()).collect(),
                _ => p.script.msgs.iter().map(|b| NpMsg::from_payload(p.script.tag, b).canon()).collect(),
            };
            if p.shape <= 1 {
                if let Some(m) = &o.unary_msg {
                    // success reported: it must be the true message and the handler must have succeeded
                    if p.script.end.is_some() || Some(m) != want.first() {
                        sim.violation("C02/success-with-wrong-data-under-connection-death", format!("{who}: caller got a response of {}B, handler script end={:?}", m.len(), p.script.end.as_ref().map(|e| e.code)));
                    }
                }
            } else {
                if o.items.len() > want.len() || o.items.iter().zip(want.iter()).any(|(a, b)| a != b) {
                    sim.violation("C02/items-not-a-prefix-under-connection-death", format!("{who}: caller got {:?}, handler produced {:?}", o.items.iter().map(|m| m.len()).collect::<Vec<_>>(), want.iter().map(|m| m.len()).collect::<Vec<_>>()));
                }
                // (a caller that asked for trailers() early legitimately holds fewer items; a clean
                // outcome still needs the handler's OK)
                let all_items = o.items.len() == want.len() || (o.early_trailers.is_some() && p.early_trailers_after == Some(o.items.len()));
                if o.clean_end && (p.script.end.is_some() || !all_items) && o.call_err.is_none() {
                    sim.violation("C02/clean-end-with-missing-data-under-connection-death", format!("{who}: clean end after {} of {} items; handler end={:?}", o.items.len(), want.len(), p.script.end.as_ref().map(|e| e.code)));
                }
            }
        }
    });
    if out.is_none() {
        sim.violation("C02/run-hangs", "the scenario did not finish within the virtual horizon".into());
    }
}

fn enc_of(h: &http::HeaderMap) -> Result<Option<Enc>, String> {
    match h.get("grpc-encoding").map(|v| v.to_str().unwrap_or("<non-ascii>")) {
        None | Some("identity") => Ok(None),
        Some(s) => Enc::from_name(s).map(Some).ok_or_else(|| format!("unknown grpc-encoding {s:?}")),
    }
}

/// tonic Channel + generated client -> raw h2 server: the request as the wire carries it.
pub fn run_client_view(sim: &Sim, _idx: u64) {
    let shape = sim.draw(4) as usize;
    let mut plan = gen_plan(sim, 1, shape, 30_000);
    // the scripted raw server answers after it has read the whole request: no conversation with it
    plan.ping_pong = false;
    let plan = plan;
    let send = if sim.chance(1, 2) { Some(sim.pick(&indep::ALL_ENC)) } else { None };
    let comp = CompCfg { server_accept: vec![], server_send: vec![], client_send: send, client_accept: if sim.chance(1, 2) { vec![sim.pick(&indep::ALL_ENC)] } else { vec![] } };
    let (_sopts, copts) = draw_h2_opts(sim);
    let netcfg = NetCfg::draw(sim);
    sim.nontrivial();
    sim.sample(|| format!("client view: {} req {:?} md {} send={send:?}", SHAPES[shape], plan.req_msgs.iter().map(|m| m.len()).collect::<Vec<_>>(), md_summary(&plan.req_md)));
    let out = run_sim(sim, Duration::from_secs(10_000), || async {
        let (_net, connector, rx) = net_and_connector(sim, netcfg, vec![]);
        let seen: Arc<Mutex<Vec<ReqRecord>>> = Arc::new(Mutex::new(vec![]));
        spawn_raw_server(sim, rx, Arc::new(Mutex::new(vec![])), seen.clone());
        let ch = match connect(&ClientOpts { lazy: false, ..copts.clone() }, connector.clone()).await {
            Ok(c) => c,
            Err(e) => return sim.violation("C03/setup-connect-failed", format!("{e}")),
        };
        tokio::time::sleep(Duration::from_millis(200)).await;
        let mut client = c02::configure!(crate::rawsvc::raw_client::RawClient::new(ch), comp, client);
        let r = tokio::time::timeout(Duration::from_secs(600), c02::perform::<RawMsg, _>(sim, &mut client, &plan)).await;
        if r.is_err() {
            return sim.violation("C03/call-hangs", "call against the raw server did not complete".into());
        }
        tokio::time::sleep(Duration::from_millis(5)).await;
        let seen = seen.lock().unwrap();
        let Some(rec) = seen.first() else {
            return sim.violation("C03/no-request-on-wire", "the raw server saw no request".into());
        };
        let who = format!("wire view of {}", SHAPES[shape]);
        if rec.method != Some(http::Method::POST) {
            sim.violation("C03/request-not-post", format!("{who}: method {:?}", rec.method));
        }
        let path = format!("/sim.Raw/{}", SHAPES[shape]);
        let uri = rec.uri.clone().unwrap_or_default();
        if uri.path() != path {
            sim.violation("C03/request-path-wrong", format!("{who}: :path {:?}, expected {path:?}", uri.path()));
        }
        if uri.scheme_str() != Some("http") {
            sim.violation("C03/request-scheme-wrong", format!("{who}: :scheme {:?}", uri.scheme_str()));
        }
        let one = |name: &str, want: &[u8], class: &str| {
            let v: Vec<_> = rec.headers.get_all(name).iter().collect();
            if v.len() != 1 || v[0].as_bytes() != want {
                sim.violation(class, format!("{who}: {name} = {v:?}"));
            }
        };
        one("content-type", b"application/grpc", "C03/request-content-type-wrong");
        one("te", b"trailers", "C03/request-te-wrong");
        if rec.trailers.is_some() {
            sim.violation("C03/request-body-has-trailers", format!("{who}: request trailers {:?}", rec.trailers));
        }
        if let Some(e) = &rec.body_error {
            sim.violation("C03/request-body-error", format!("{who}: {e}"));
        }
        match enc_of(&rec.headers) {
            Ok(enc) => {
                if enc != send {
                    sim.violation("C05/client-request-encoding-not-as-configured", format!("{who}: configured {send:?}, announced {enc:?}"));
                }
                let sent: Vec<Vec<u8>> = if shape == 0 || shape == 2 { vec![plan.req_msgs.first().cloned().unwrap_or_default()] } else { plan.req_msgs.clone() };
                c03::check_message_bytes(sim, &format!("{who} request body"), &rec.body, enc, &sent, true);
            }
            Err(e) => sim.violation("C03/request-encoding-header-wrong", e),
        }
        // C08 on the real wire: canaries never emitted; -bin values are base64 of the original;
        // every non-reserved entry present with the same values in order
        for (k, v) in rec.headers.iter() {
            if v.as_bytes().windows(CANARY.len()).any(|w| w == CANARY.as_bytes()) {
                sim.violation("C08/reserved-header-emitted-from-user-metadata", format!("{who}: wire header {:?} = {:?}", k.as_str(), String::from_utf8_lossy(v.as_bytes())));
            }
        }
        let mut keys: Vec<(&str, bool)> = vec![];
        for e in plan.req_md.iter().filter(|e| e.expected()) {
            if !keys.contains(&(e.key.as_str(), e.bin)) {
                keys.push((e.key.as_str(), e.bin));
            }
        }
        for (key, bin) in keys {
            let want: Vec<&Vec<u8>> = plan.req_md.iter().filter(|e| e.expected() && e.key == key).map(|e| &e.val).collect();
            let have: Vec<Vec<u8>> = rec.headers.get_all(key).iter().map(|v| if bin { indep::b64_decode(v.as_bytes()).unwrap_or_else(|_| b"<not base64>".to_vec()) } else { v.as_bytes().to_vec() }).collect();
            if have.len() != want.len() || have.iter().zip(want.iter()).any(|(a, b)| a != *b) {
                sim.violation("C08/metadata-not-preserved-on-wire", format!("{who}: key {key:?}: sent {} values, wire carries {:?}", want.len(), have.iter().map(|v| String::from_utf8_lossy(v).into_owned()).collect::<Vec<_>>()));
            }
        }
        sim.probe("client-wire-view");
    });
    if out.is_none() {
        sim.violation("C03/run-hangs", "the scenario did not finish within the virtual horizon".into());
    }
}

/// raw h2 client -> tonic Server: the response as the wire carries it.
pub fn run_server_view(sim: &Sim, _idx: u64) {
    let shape = sim.pick(&[0usize, 2]);
    let mut plan = gen_plan(sim, 1, shape, 30_000);
    plan.script.gap_us = sim.pick(&[0u64, 0, 1_000]);
    let server_send: Vec<Enc> = if sim.chance(1, 2) { vec![sim.pick(&indep::ALL_ENC)] } else { vec![] };
    let comp = CompCfg { server_accept: indep::ALL_ENC.to_vec(), server_send: server_send.clone(), client_send: None, client_accept: vec![] };
    let offer = sim.chance(1, 2);
    let (sopts, _c) = draw_h2_opts(sim);
    let netcfg = NetCfg::draw(sim);
    // foreign client metadata with padded / unpadded base64
    let md = gen_md(sim, 6, false);
    sim.nontrivial();
    sim.sample(|| format!("server view: {} script resp {:?} end {:?} fail_at_call={} send={server_send:?} offer={offer} md {}", SHAPES[shape], plan.script.msgs.iter().map(|m| m.len()).collect::<Vec<_>>(), plan.script.end.as_ref().map(|e| e.summary()), plan.script.fail_at_call, md_summary(&md)));
    let out = run_sim(sim, Duration::from_secs(10_000), || async {
        let (net, _connector, rx) = net_and_connector(sim, netcfg, vec![]);
        let handler = Handler::new(sim);
        handler.add_script(1, plan.script.clone());
        // feed the server by hand: the raw client owns the client end
        drop(rx);
        let (tx2, rx2) = tokio::sync::mpsc::unbounded_channel();
        let _srv = spawn_server::<std::future::Pending<()>>(&handler, &comp, &sopts, rx2, None);
        let (cio, sio) = net.pair();
        let _ = tx2.send(sio);
        let mut headers: Vec<(String, Vec<u8>)> = vec![("content-type".into(), b"application/grpc".to_vec()), ("te".into(), b"trailers".to_vec()), ("sim-call".into(), b"1".to_vec())];
        if offer {
            headers.push(("grpc-accept-encoding".into(), b"gzip,deflate,zstd".to_vec()));
        }
        for e in &md {
            headers.push((e.key.clone(), if e.bin { indep::b64_encode(&e.val, sim.chance(1, 2)).into_bytes() } else { e.val.clone() }));
        }
        let req_msg = plan.req_msgs.first().cloned().unwrap_or_default();
        let frame = indep::frame(0, &req_msg);
        // a handful of DATA frames (h2 treats floods of tiny or empty DATA frames as abuse)
        let mut chunks: Vec<Vec<u8>> = vec![];
        {
            let ncut = sim.range(0, 5) as usize;
            let mut cuts: Vec<usize> = (0..ncut).map(|_| sim.range(0, frame.len() as u64) as usize).collect();
            cuts.push(frame.len());
            cuts.sort_unstable();
            cuts.dedup();
            let mut prev = 0;
            for c in cuts {
                if c > prev {
                    chunks.push(frame[prev..c].to_vec());
                    prev = c;
                }
            }
        }
        let path = format!("/sim.Raw/{}", SHAPES[shape]);
        let rec = match tokio::time::timeout(Duration::from_secs(600), raw_client_call(sim, cio, &path, &headers, chunks)).await {
            Ok(r) => r,
            Err(_) => return sim.violation("C03/call-hangs", "raw client call did not complete".into()),
        };
        let who = format!("server wire view of {}", SHAPES[shape]);
        if let Some(e) = &rec.error {
            return sim.violation("C03/response-stream-error", format!("{who}: {e}"));
        }
        if rec.status != Some(http::StatusCode::OK) {
            sim.violation("C03/response-status-not-200", format!("{who}: {:?}", rec.status));
        }
        let cts: Vec<_> = rec.headers.get_all("content-type").iter().collect();
        if cts.len() != 1 || cts[0].as_bytes() != b"application/grpc" {
            sim.violation("C03/response-content-type-wrong", format!("{who}: {cts:?}"));
        }
        let hs = c03::count_status(&rec.headers);
        let ts = rec.trailers.as_ref().map(c03::count_status).unwrap_or(0);
        if hs + ts != 1 {
            sim.violation("C03/not-exactly-one-grpc-status", format!("{who}: {hs} in headers, {ts} in trailers"));
        }
        if hs > 0 && (!rec.end_stream_on_headers || rec.data_frames > 0 || rec.trailers.is_some()) {
            sim.violation("C03/status-in-headers-with-body", format!("{who}: grpc-status in headers, END_STREAM on headers={}, {} data frames, trailers {:?}", rec.end_stream_on_headers, rec.data_frames, rec.trailers.is_some()));
        }
        // handler saw the foreign metadata (padded or not)
        if let Some(l) = handler.log(1) {
            if let Some(m) = &l.md {
                gen::check_md_received(sim, "foreign h2 client -> handler", &md, m);
            }
            if l.msgs != vec![req_msg.clone()] {
                sim.violation("C02/request-messages-differ", format!("{who}: handler received {:?}", l.msgs.iter().map(|m| m.len()).collect::<Vec<_>>()));
            }
        } else {
            sim.violation("C02/handler-not-invoked", format!("{who}: handler never entered"));
        }
        // body bytes and status as an independent reader sees them
        let s = &plan.script;
        let status_block = rec.trailers.as_ref().filter(|_| ts > 0).unwrap_or(&rec.headers);
        let code: Option<i32> = status_block.get("grpc-status").and_then(|v| v.to_str().ok()).and_then(|s| s.parse().ok());
        match &s.end {
            None => {
                if code != Some(0) {
                    sim.violation("C02/success-reported-as-error", format!("{who}: handler succeeded, wire grpc-status {code:?}"));
                }
            }
            Some(w) => {
                if code != Some(w.code as i32) {
                    sim.violation("C02/status-code-differs", format!("{who}: handler ended with {:?}, wire grpc-status {code:?}", w.code));
                }
                let msg = status_block.get("grpc-message").map(|v| indep::percent_decode(v.as_bytes())).unwrap_or_default();
                if msg != w.msg.as_bytes() {
                    sim.violation("C04/status-roundtrip-message-differs", format!("{who}: handler message {:?}, wire grpc-message decodes to {:?}", w.msg, String::from_utf8_lossy(&msg)));
                }
                // header values legal: h2 would have refused illegal ones; details are base64
                let det = status_block.get("grpc-status-details-bin").map(|v| indep::b64_decode(v.as_bytes()));
                match (det, w.details.is_empty()) {
                    (None, true) => {}
                    (Some(Ok(d)), _) if d == w.details => {}
                    (other, _) => sim.violation("C04/status-roundtrip-details-differ", format!("{who}: handler details {}B, wire {:?}", w.details.len(), other.map(|r| r.map(|d| d.len())))),
                }
                for e in w.md.iter().filter(|e| e.expected()) {
                    let have: Vec<Vec<u8>> = status_block.get_all(e.key.as_str()).iter().map(|v| if e.bin { indep::b64_decode(v.as_bytes()).unwrap_or_default() } else { v.as_bytes().to_vec() }).collect();
                    if !have.contains(&e.val) {
                        sim.violation("C08/metadata-not-preserved-on-wire", format!("{who}: status metadata {:?} missing on the wire", e.key));
                    }
                }
            }
        }
        for h in [Some(&rec.headers), rec.trailers.as_ref()].into_iter().flatten() {
            for (k, v) in h.iter() {
                if v.as_bytes().windows(CANARY.len()).any(|w| w == CANARY.as_bytes()) {
                    sim.violation("C08/reserved-header-emitted-from-user-metadata", format!("{who}: wire header {:?} = {:?}", k.as_str(), String::from_utf8_lossy(v.as_bytes())));
                }
            }
        }
        match enc_of(&rec.headers) {
            Ok(enc) => {
                if let Some(c) = enc {
                    if !server_send.contains(&c) || !offer {
                        sim.violation("C05/response-encoding-not-configured-or-not-offered", format!("{who}: server send {server_send:?}, offered={offer}, announced {}", c.name()));
                    }
                }
                let want: Vec<Vec<u8>> = if s.fail_at_call && s.end.is_some() { vec![] } else if shape == 0 { if s.end.is_some() { vec![] } else { s.msgs.iter().take(1).cloned().collect() } } else { s.msgs.clone() };
                c03::check_message_bytes(sim, &format!("{who} response body"), &rec.body, enc, &want, true);
            }
            Err(e) => sim.violation("C03/response-encoding-header-wrong", e),
        }
        sim.probe("server-wire-view");
    });
    if out.is_none() {
        sim.violation("C03/run-hangs", "the scenario did not finish within the virtual horizon".into());
    }
}

/// Hostile raw h2 server -> tonic Channel: real RST_STREAM codes (through hyper::Error) and HTTP
/// statuses without grpc-status.
pub fn run_hostile_server(sim: &Sim, idx: u64) {
    let kind = sim.weighted(&[3, 2]);
    let streaming = sim.chance(1, 2);
    let reason: u32 = if idx < 16 { idx as u32 } else { sim.pick(&[0u32, 1, 2, 3, 4, 5, 6, 7, 8, 9, 10, 11, 12, 13, 14, 255]) };
    let http: u16 = sim.pick(&[400u16, 401, 403, 404, 429, 502, 503, 504, 500, 418, 302, 204]);
    let phase = sim.draw(3); // reset before headers / after headers / after a message
    let netcfg = NetCfg::draw(sim);
    let (_s, copts) = draw_h2_opts(sim);
    sim.nontrivial();
    let script = if kind == 0 {
        let mut steps = vec![];
        if phase >= 1 {
            steps.push(RespStep::Head { status: 200, headers: vec![("content-type".into(), b"application/grpc".to_vec())], end: false });
        }
        if phase == 2 {
            steps.push(RespStep::Data { bytes: indep::frame(0, b"m1"), end: false });
            steps.push(RespStep::Sleep(1000));
        }
        steps.push(RespStep::Reset(reason));
        RawScript { read_request_first: sim.chance(1, 2), steps }
    } else {
        RawScript { read_request_first: true, steps: vec![RespStep::Head { status: http, headers: vec![("content-type".into(), b"text/plain".to_vec())], end: sim.chance(1, 2) }, RespStep::Data { bytes: b"oops".to_vec(), end: true }] }
    };
    sim.sample(|| if kind == 0 { format!("RST_STREAM({reason}) phase {phase} streaming={streaming}") } else { format!("HTTP {http} without grpc-status streaming={streaming}") });
    sim.ev(|| format!("config: kind={kind} reason={reason} http={http} phase={phase} streaming={streaming}"));
    let out = run_sim(sim, Duration::from_secs(10_000), || async {
        let (_net, connector, rx) = net_and_connector(sim, netcfg, vec![]);
        spawn_raw_server(sim, rx, Arc::new(Mutex::new(vec![script])), Arc::new(Mutex::new(vec![])));
        let ch = match connect(&copts, connector.clone()).await {
            Ok(c) => c,
            Err(e) => return sim.violation("C04/setup-connect-failed", format!("{e}")),
        };
        let mut client = crate::rawsvc::raw_client::RawClient::new(ch);
        let fut = async {
            if streaming {
                match client.server_stream(tonic::Request::new(RawMsg(Bytes::from_static(b"q")))).await {
                    Err(e) => Err((e.code(), e.message().to_string())),
                    Ok(r) => {
                        let mut s = r.into_inner();
                        loop {
                            match s.message().await {
                                Ok(Some(_)) => {}
                                Ok(None) => break Ok(()),
                                Err(e) => break Err((e.code(), e.message().to_string())),
                            }
                        }
                    }
                }
            } else {
                client.unary(tonic::Request::new(RawMsg(Bytes::from_static(b"q")))).await.map(|_| ()).map_err(|e| (e.code(), e.message().to_string()))
            }
        };
        let r = match tokio::time::timeout(Duration::from_secs(600), fut).await {
            Ok(r) => r,
            Err(_) => return sim.violation("C04/call-hangs", "the call against the hostile server did not complete".into()),
        };
        sim.ev(|| format!("caller observes {r:?}"));
        match r {
            Ok(()) => {
                if kind == 0 {
                    sim.violation(&format!("C04/reset-read-as-success-reason-{reason}"), format!("real RST_STREAM({reason}) in phase {phase} (0 = before headers, 1 = after headers, 2 = after a message), streaming={streaming}: caller sees success / a clean end of stream"))
                } else {
                    sim.violation("C04/http-error-status-read-as-success", format!("HTTP {http} without grpc-status: caller sees success"))
                }
            }
            Err((c, m)) => {
                if kind == 0 {
                    sim.probe("real-h2-reset");
                    let want: Option<Code> = match reason {
                        8 => Some(Code::Cancelled),
                        7 => Some(Code::Unavailable),
                        11 => Some(Code::ResourceExhausted),
                        12 => Some(Code::PermissionDenied),
                        0 | 1 | 2 | 3 | 4 | 6 | 9 | 10 => Some(Code::Internal),
                        _ => None,
                    };
                    if let Some(w) = want {
                        if c != w {
                            sim.violation(&format!("C04/h2-reset-mapping-wrong-reason-{reason}"), format!("real RST_STREAM({reason}) in phase {phase}: caller sees {c:?} ({m:?}), gRPC table says {w:?}"));
                        }
                    }
                } else {
                    sim.probe("real-http-status");
                    let want = match http {
                        400 => Code::Internal,
                        401 => Code::Unauthenticated,
                        403 => Code::PermissionDenied,
                        404 => Code::Unimplemented,
                        429 | 502 | 503 | 504 => Code::Unavailable,
                        _ => Code::Unknown,
                    };
                    if c != want {
                        sim.violation("C04/http-status-mapping-wrong", format!("real HTTP {http} without grpc-status: caller sees {c:?} ({m:?}), table says {want:?}"));
                    }
                }
            }
        }
    });
    if out.is_none() {
        sim.violation("C04/run-hangs", "the scenario did not finish within the virtual horizon".into());
    }
    let _ = gen_status;
}

/// C03: every gRPC response tonic produces — also the ones nobody's handler wrote: an unknown
/// method of a known service (the generated fallback arm), an unknown service or an odd path (the
/// router's fallback) — has HTTP status 200, content-type application/grpc and exactly one
/// grpc-status (UNIMPLEMENTED), as a raw h2 client sees it.
pub fn run_unknown_path(sim: &Sim, _idx: u64) {
    const PATHS: [&str; 12] = [
        "/sim.Raw/NoSuchMethod", "/sim.Raw/unary", "/sim.Raw/", "/sim.Raw/Unary/extra", "/echo.Echo/NoSuchMethod", "/Bare/NoSuchMethod",
        "/no.such.Service/Method", "/", "/sim.Raw", "/sim.RawX/Unary", "/sim.raw/Unary", "//sim.Raw/Unary",
    ];
    let path = sim.pick(&PATHS);
    let (sopts, _c) = draw_h2_opts(sim);
    let netcfg = NetCfg::draw(sim);
    let with_body = sim.chance(1, 2);
    let comp = if sim.chance(1, 2) { CompCfg { server_accept: indep::ALL_ENC.to_vec(), server_send: vec![sim.pick(&indep::ALL_ENC)], client_send: None, client_accept: vec![] } } else { CompCfg { server_accept: vec![], server_send: vec![], client_send: None, client_accept: vec![] } };
    sim.nontrivial();
    sim.sample(|| format!("unknown path {path:?}, request body={with_body}"));
    sim.ev(|| format!("config: path {path:?} body={with_body}"));
    let out = run_sim(sim, Duration::from_secs(10_000), || async {
        let (net, _connector, rx) = net_and_connector(sim, netcfg, vec![]);
        let handler = Handler::new(sim);
        drop(rx);
        let (tx2, rx2) = tokio::sync::mpsc::unbounded_channel();
        let _srv = spawn_server::<std::future::Pending<()>>(&handler, &comp, &sopts, rx2, None);
        let (cio, sio) = net.pair();
        let _ = tx2.send(sio);
        let headers: Vec<(String, Vec<u8>)> = vec![("content-type".into(), b"application/grpc".to_vec()), ("te".into(), b"trailers".to_vec()), ("grpc-accept-encoding".into(), b"gzip,deflate,zstd".to_vec())];
        let chunks = if with_body { vec![indep::frame(0, b"ping")] } else { vec![] };
        let rec = match tokio::time::timeout(Duration::from_secs(600), raw_client_call(sim, cio, path, &headers, chunks)).await {
            Ok(r) => r,
            Err(_) => return sim.violation("C03/call-hangs", format!("raw client call to {path:?} did not complete")),
        };
        let who = format!("response to the unknown path {path:?}");
        if let Some(e) = &rec.error {
            // the server may reset the stream after answering (it does not read the request body);
            // what matters is the answer, if headers arrived
            if rec.status.is_none() {
                return sim.violation("C03/response-stream-error", format!("{who}: {e}"));
            }
        }
        if !handler.entered().is_empty() {
            sim.violation("C03/handler-entered-for-unknown-path", format!("{who}: a handler was invoked"));
        }
        if rec.status != Some(http::StatusCode::OK) {
            sim.violation("C03/response-status-not-200", format!("{who}: {:?}", rec.status));
        }
        let cts: Vec<_> = rec.headers.get_all("content-type").iter().collect();
        if cts.len() != 1 || cts[0].as_bytes() != b"application/grpc" {
            sim.violation("C03/response-content-type-wrong", format!("{who}: {cts:?}"));
        }
        let hs = c03::count_status(&rec.headers);
        let ts = rec.trailers.as_ref().map(c03::count_status).unwrap_or(0);
        if hs + ts != 1 {
            sim.violation("C03/not-exactly-one-grpc-status", format!("{who}: {hs} in headers, {ts} in trailers"));
        }
        let block = rec.trailers.as_ref().filter(|_| ts > 0).unwrap_or(&rec.headers);
        let code: Option<i32> = block.get("grpc-status").and_then(|v| v.to_str().ok()).and_then(|s| s.parse().ok());
        if code != Some(12) {
            sim.violation("C03/unknown-path-not-unimplemented", format!("{who}: grpc-status {code:?}"));
        }
        if !rec.body.is_empty() {
            sim.violation("C03/body-on-unimplemented-response", format!("{who}: {} body bytes", rec.body.len()));
        }
        sim.probe("unknown-path-answered");
    });
    if out.is_none() {
        sim.violation("C03/run-hangs", "the scenario did not finish within the virtual horizon".into());
    }
}
