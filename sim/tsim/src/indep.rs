//! Independent reference encoders/decoders.  No tonic code is used here: the gRPC length prefix is
//! built and parsed by hand, compression goes through flate2's `write::*` adaptors and zstd's
//! `bulk` API (tonic uses the `read::*` / streaming adaptors), base64 and percent coding are by
//! hand.  Trusted base: the flate2/zstd libraries themselves.

use std::io::Write;

#[derive(Clone, Copy, Debug, PartialEq, Eq, Hash, PartialOrd, Ord)]
pub enum Enc {
    Gzip,
    Deflate,
    Zstd,
}

pub const ALL_ENC: [Enc; 3] = [Enc::Gzip, Enc::Deflate, Enc::Zstd];

impl Enc {
    pub fn name(self) -> &'static str {
        match self {
            Enc::Gzip => "gzip",
            Enc::Deflate => "deflate",
            Enc::Zstd => "zstd",
        }
    }
    pub fn from_name(s: &str) -> Option<Enc> {
        match s {
            "gzip" => Some(Enc::Gzip),
            "deflate" => Some(Enc::Deflate),
            "zstd" => Some(Enc::Zstd),
            _ => None,
        }
    }
    pub fn tonic(self) -> tonic::codec::CompressionEncoding {
        match self {
            Enc::Gzip => tonic::codec::CompressionEncoding::Gzip,
            Enc::Deflate => tonic::codec::CompressionEncoding::Deflate,
            Enc::Zstd => tonic::codec::CompressionEncoding::Zstd,
        }
    }
}

pub fn compress(enc: Enc, data: &[u8]) -> Vec<u8> {
    match enc {
        Enc::Gzip => {
            let mut e = flate2::write::GzEncoder::new(Vec::new(), flate2::Compression::new(6));
            e.write_all(data).unwrap();
            e.finish().unwrap()
        }
        Enc::Deflate => {
            let mut e = flate2::write::ZlibEncoder::new(Vec::new(), flate2::Compression::new(6));
            e.write_all(data).unwrap();
            e.finish().unwrap()
        }
        Enc::Zstd => zstd::bulk::compress(data, 3).unwrap(),
    }
}

/// Inflate; `cap` bounds the output for zstd's bulk API.
pub fn inflate(enc: Enc, data: &[u8], cap: usize) -> Result<Vec<u8>, String> {
    match enc {
        Enc::Gzip => {
            let mut d = flate2::write::GzDecoder::new(Vec::new());
            d.write_all(data).map_err(|e| e.to_string())?;
            d.finish().map_err(|e| e.to_string())
        }
        Enc::Deflate => {
            let mut d = flate2::write::ZlibDecoder::new(Vec::new());
            d.write_all(data).map_err(|e| e.to_string())?;
            d.finish().map_err(|e| e.to_string())
        }
        Enc::Zstd => zstd::bulk::decompress(data, cap).map_err(|e| e.to_string()),
    }
}

/// Build one length-prefixed message by hand.
pub fn frame(flag: u8, payload: &[u8]) -> Vec<u8> {
    let mut v = Vec::with_capacity(5 + payload.len());
    v.push(flag);
    v.extend_from_slice(&(payload.len() as u32).to_be_bytes());
    v.extend_from_slice(payload);
    v
}

#[derive(Clone, Debug, PartialEq, Eq)]
pub struct RawFrame {
    pub flag: u8,
    pub payload: Vec<u8>,
    pub start: usize,
}

#[derive(Clone, Debug, PartialEq, Eq)]
pub enum ParseEnd {
    Clean,
    /// fewer than 5 bytes left for a prefix, or fewer payload bytes than declared
    Truncated { at: usize },
}

/// Sequential framing parser: flag byte, 4-byte big-endian length, payload.  Does not judge the
/// flag value (callers do).
pub fn parse_frames(data: &[u8]) -> (Vec<RawFrame>, ParseEnd) {
    let mut out = vec![];
    let mut p = 0usize;
    loop {
        if p == data.len() {
            return (out, ParseEnd::Clean);
        }
        if data.len() - p < 5 {
            return (out, ParseEnd::Truncated { at: p });
        }
        let flag = data[p];
        let len = u32::from_be_bytes([data[p + 1], data[p + 2], data[p + 3], data[p + 4]]) as usize;
        if data.len() - p - 5 < len {
            return (out, ParseEnd::Truncated { at: p });
        }
        out.push(RawFrame {
            flag,
            payload: data[p + 5..p + 5 + len].to_vec(),
            start: p,
        });
        p += 5 + len;
    }
}

const B64: &[u8; 64] = b"ABCDEFGHIJKLMNOPQRSTUVWXYZabcdefghijklmnopqrstuvwxyz0123456789+/";

pub fn b64_encode(data: &[u8], pad: bool) -> String {
    let mut s = String::new();
    for c in data.chunks(3) {
        let b = [c[0], *c.get(1).unwrap_or(&0), *c.get(2).unwrap_or(&0)];
        let n = ((b[0] as u32) << 16) | ((b[1] as u32) << 8) | b[2] as u32;
        s.push(B64[(n >> 18) as usize & 63] as char);
        s.push(B64[(n >> 12) as usize & 63] as char);
        if c.len() > 1 {
            s.push(B64[(n >> 6) as usize & 63] as char);
        } else if pad {
            s.push('=');
        }
        if c.len() > 2 {
            s.push(B64[n as usize & 63] as char);
        } else if pad {
            s.push('=');
        }
    }
    s
}

fn b64_val(c: u8) -> Option<u32> {
    match c {
        b'A'..=b'Z' => Some((c - b'A') as u32),
        b'a'..=b'z' => Some((c - b'a') as u32 + 26),
        b'0'..=b'9' => Some((c - b'0') as u32 + 52),
        b'+' => Some(62),
        b'/' => Some(63),
        _ => None,
    }
}

/// Decode standard-alphabet base64, padding optional.  Strict about alphabet and about
/// impossible lengths; lenient about non-canonical trailing bits (not needed by any oracle).
pub fn b64_decode(s: &[u8]) -> Result<Vec<u8>, String> {
    let mut end = s.len();
    while end > 0 && s[end - 1] == b'=' && s.len() - end < 2 {
        end -= 1;
    }
    let body = &s[..end];
    if body.len() % 4 == 1 {
        return Err("impossible base64 length".into());
    }
    let mut out = Vec::with_capacity(body.len() * 3 / 4);
    for q in body.chunks(4) {
        let mut n = 0u32;
        for (i, c) in q.iter().enumerate() {
            let v = b64_val(*c).ok_or_else(|| format!("bad base64 byte {c:#x}"))?;
            n |= v << (18 - 6 * i as u32);
        }
        out.push((n >> 16) as u8);
        if q.len() > 2 {
            out.push((n >> 8) as u8);
        }
        if q.len() > 3 {
            out.push(n as u8);
        }
    }
    Ok(out)
}

/// Decode a body made of concatenated, individually padded base64 segments (grpc-web-text).
pub fn b64_decode_concat(s: &[u8]) -> Result<Vec<u8>, String> {
    let mut out = vec![];
    let mut i = 0usize;
    if s.len() % 4 != 0 {
        return Err(format!("grpc-web-text body length {} is not a multiple of 4", s.len()));
    }
    while i < s.len() {
        out.extend(b64_decode(&s[i..i + 4])?);
        i += 4;
    }
    Ok(out)
}

/// Percent-decode by hand (RFC 3986): `%XX` → byte, everything else literal.
pub fn percent_decode(s: &[u8]) -> Vec<u8> {
    let mut out = vec![];
    let mut i = 0;
    while i < s.len() {
        if s[i] == b'%' && i + 2 < s.len() {
            let h = (s[i + 1] as char).to_digit(16);
            let l = (s[i + 2] as char).to_digit(16);
            if let (Some(h), Some(l)) = (h, l) {
                out.push((h * 16 + l) as u8);
                i += 3;
                continue;
            }
        }
        out.push(s[i]);
        i += 1;
    }
    out
}
