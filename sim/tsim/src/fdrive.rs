//! Poll-level drivers for engine F.

use simcore::exec::Flag;
use simcore::Sim;
use std::pin::Pin;
use std::task::{Context, Poll, Waker};
use tokio_stream::Stream;
use tonic::{Code, Status};

#[derive(Clone, Debug, PartialEq, Eq)]
pub enum SEv {
    Item(Vec<u8>),
    Err(Code, String),
    End,
    Hang,
    Stalled,
    Livelock,
}

impl SEv {
    pub fn short(&self) -> String {
        match self {
            SEv::Item(b) => format!("Item({}B {})", b.len(), crate::seams::hex_head(b)),
            SEv::Err(c, m) => format!("Err({:?}, {:?})", c, m),
            o => format!("{o:?}"),
        }
    }
}

/// Poll a message stream the way a draining caller would, and keep polling `extra` more times
/// after the first terminal event (an error or the end) to observe what follows.
pub fn drain_stream<T, S>(sim: &Sim, stream: &mut S, canon: &dyn Fn(&T) -> Vec<u8>, extra: u32, max_items: usize) -> Vec<SEv>
where
    S: Stream<Item = Result<T, Status>> + Unpin,
{
    let flag = Flag::new();
    let waker = Waker::from(flag.clone());
    let mut cx = Context::from_waker(&waker);
    let mut out = Vec::new();
    let mut after_terminal: Option<u32> = None;
    let mut pendings = 0u64;
    loop {
        if let Some(n) = after_terminal {
            if n >= extra {
                break;
            }
        }
        if out.len() > max_items {
            out.push(SEv::Livelock);
            break;
        }
        flag.take();
        match Pin::new(&mut *stream).poll_next(&mut cx) {
            Poll::Ready(Some(Ok(m))) => {
                let c = canon(&m);
                sim.ev(|| format!("stream: Ok item {}B {}", c.len(), crate::seams::hex_head(&c)));
                out.push(SEv::Item(c));
                if let Some(n) = after_terminal.as_mut() {
                    *n += 1;
                }
            }
            Poll::Ready(Some(Err(s))) => {
                sim.ev(|| format!("stream: Err {:?} {:?}", s.code(), s.message()));
                out.push(SEv::Err(s.code(), s.message().to_string()));
                match after_terminal.as_mut() {
                    Some(n) => *n += 1,
                    None => after_terminal = Some(0),
                }
            }
            Poll::Ready(None) => {
                sim.ev(|| "stream: None".to_string());
                out.push(SEv::End);
                match after_terminal.as_mut() {
                    Some(n) => *n += 1,
                    None => after_terminal = Some(0),
                }
            }
            Poll::Pending => {
                if !flag.is_set() {
                    if sim.stalled() {
                        sim.ev(|| "stream: Pending (peer stalled)".to_string());
                        out.push(SEv::Stalled);
                    } else {
                        sim.ev(|| "stream: Pending with no wake-up registered".to_string());
                        out.push(SEv::Hang);
                    }
                    break;
                }
                pendings += 1;
                if pendings > 200_000 {
                    out.push(SEv::Livelock);
                    break;
                }
            }
        }
    }
    out
}

/// Generic terminal-behaviour oracle shared by C01/C07/C17: after the first error nothing but
/// `End`; after `End` nothing but `End`; no hang; no livelock.  Returns violation (class, detail).
pub fn check_terminal(evs: &[SEv], err_class_suffix: &str) -> Vec<(String, String)> {
    let mut v = vec![];
    let mut first_err: Option<usize> = None;
    let mut first_end: Option<usize> = None;
    for (i, e) in evs.iter().enumerate() {
        match e {
            SEv::Hang => v.push(("lost-wakeup".to_string(), format!("event {i}: Pending with no wake-up registered; history {}", show(evs)))),
            SEv::Livelock => v.push(("livelock".to_string(), format!("stream never terminated within the poll budget; history tail {}", show(&evs[evs.len().saturating_sub(6)..])))),
            SEv::Stalled => {}
            SEv::Err(..) => {
                // An error after a clean end is not judged by itself (the properties promise that
                // the first *error* is final, and a draining caller stops at the end); but that
                // error must then be final too.
                if let Some(j) = first_err {
                    v.push((format!("error-not-terminal{err_class_suffix}"), format!("error at event {j} followed by another error at event {i}; history {}", show(evs))));
                    break;
                } else {
                    first_err = Some(i);
                }
            }
            SEv::Item(_) => {
                if let Some(j) = first_err {
                    v.push((format!("item-after-error{err_class_suffix}"), format!("error at event {j} followed by an item at event {i}; history {}", show(evs))));
                    break;
                } else if let Some(j) = first_end {
                    v.push(("item-after-end".to_string(), format!("end at event {j} followed by an item at event {i}; history {}", show(evs))));
                    break;
                }
            }
            SEv::End => {
                if first_end.is_none() && first_err.is_none() {
                    first_end = Some(i);
                }
            }
        }
    }
    v
}

pub fn show(evs: &[SEv]) -> String {
    let mut s = String::from("[");
    for (i, e) in evs.iter().enumerate() {
        if i > 0 {
            s.push_str(", ");
        }
        if i >= 14 {
            s.push_str("...");
            break;
        }
        s.push_str(&e.short());
    }
    s.push(']');
    s
}
