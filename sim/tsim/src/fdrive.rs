//! Poll-level drivers for engine F.

use simcore::exec::Flag;
use simcore::Sim;
use std::pin::Pin;
use std::task::{Context, Poll, Waker};
use tokio_stream::Stream;
use tonic::{Code, Status};

#[derive(Clone, Debug, PartialEq, Eq)]
pub enum SEv {
    Item(Vec<u8>),
    Err(Code, String),
    End,
    Hang,
    Stalled,
    Livelock,
}

impl SEv {
    pub fn short(&self) -> String {
        match self {
            SEv::Item(b) => format!("Item({}B {})", b.len(), crate::seams::hex_head(b)),
            SEv::Err(c, m) => format!("Err({:?}, {:?})", c, m),
            o => format!("{o:?}"),
        }
    }
}

/// Poll a message stream the way a draining caller would, and keep polling `extra` more times
/// after the first terminal event (an error or the end) to observe what follows.
pub fn drain_stream<T, S>(sim: &Sim, stream: &mut S, canon: &dyn Fn(&T) -> Vec<u8>, extra: u32, max_items: usize) -> Vec<SEv>
where
    S: Stream<Item = Result<T, Status>> + Unpin,
{
    let flag = Flag::new();
    let waker = Waker::from(flag.clone());
    let mut cx = Context::from_waker(&waker);
    let mut out = Vec::new();
    let mut after_terminal: Option<u32> = None;
    let mut pendings = 0u64;
    loop {
        if let Some(n) = after_terminal {
            if n >= extra {
                break;
            }
        }
        if out.len() > max_items {
            out.push(SEv::Livelock);
            break;
        }
        flag.take();
        match Pin::new(&mut *stream).poll_next(&mut cx) {
            Poll::Ready(Some(Ok(m))) => {
                let c = canon(&m);
                sim.ev(|| format!("stream: Ok item {}B {}", c.len(), crate::seams::hex_head(&c)));
                out.push(SEv::Item(c));
                if let Some(n) = after_terminal.as_mut() {
                    *n += 1;
                }
            }
            Poll::Ready(Some(Err(s))) => {
                sim.ev(|| format!("stream: Err {:?} {:?}", s.code(), s.message()));
                out.push(SEv::Err(s.code(), s.message().to_string()));
                match after_terminal.as_mut() {
                    Some(n) => *n += 1,
                    None => after_terminal = Some(0),
                }
            }
            Poll::Ready(None) => {
                sim.ev(|| "stream: None".to_string());
                out.push(SEv::End);
                match after_terminal.as_mut() {
                    Some(n) => *n += 1,
                    None => after_terminal = Some(0),
                }
            }
            Poll::Pending => {
                if !flag.is_set() {
                    if sim.stalled() {
                        sim.ev(|| "stream: Pending (peer stalled)".to_string());
                        out.push(SEv::Stalled);
                    } else {
                        sim.ev(|| "stream: Pending with no wake-up registered".to_string());
                        out.push(SEv::Hang);
                    }
                    break;
                }
                pendings += 1;
                if pendings > 200_000 {
                    out.push(SEv::Livelock);
                    break;
                }
            }
        }
    }
    out
}

/// Generic terminal-behaviour oracle shared by C01/C07/C17: after the first error nothing but
/// `End`; after `End` nothing but `End`; no hang; no livelock.  Returns violation (class, detail).
pub fn check_terminal(evs: &[SEv], err_class_suffix: &str) -> Vec<(String, String)> {
    let mut v = vec![];
    let mut first_err: Option<usize> = None;
    let mut first_end: Option<usize> = None;
    for (i, e) in evs.iter().enumerate() {
        match e {
            SEv::Hang => v.push(("lost-wakeup".to_string(), format!("event {i}: Pending with no wake-up registered; history {}", show(evs)))),
            SEv::Livelock => v.push(("livelock".to_string(), format!("stream never terminated within the poll budget; history tail {}", show(&evs[evs.len().saturating_sub(6)..])))),
            SEv::Stalled => {}
            SEv::Err(..) => {
                // An error after a clean end is not judged by itself (the properties promise that
                // the first *error* is final, and a draining caller stops at the end); but that
                // error must then be final too.
                if let Some(j) = first_err {
                    v.push((format!("error-not-terminal{err_class_suffix}"), format!("error at event {j} followed by another error at event {i}; history {}", show(evs))));
                    break;
                } else {
                    first_err = Some(i);
                }
            }
            SEv::Item(_) => {
                if let Some(j) = first_err {
                    v.push((format!("item-after-error{err_class_suffix}"), format!("error at event {j} followed by an item at event {i}; history {}", show(evs))));
                    break;
                } else if let Some(j) = first_end {
                    v.push(("item-after-end".to_string(), format!("end at event {j} followed by an item at event {i}; history {}", show(evs))));
                    break;
                }
            }
            SEv::End => {
                if first_end.is_none() && first_err.is_none() {
                    first_end = Some(i);
                }
            }
        }
    }
    v
}

pub fn show(evs: &[SEv]) -> String {
    let mut s = String::from("[");
    for (i, e) in evs.iter().enumerate() {
        if i > 0 {
            s.push_str(", ");
        }
        if i >= 14 {
            s.push_str("...");
            break;
        }
        s.push_str(&e.short());
    }
    s.push(']');
    s
}

// ------------------------------------------------------------------------------------------------
// Body consumption "as the wire sees it"

use bytes::Bytes;
use http::HeaderMap;
use http_body::Body;

#[derive(Clone, Debug)]
pub enum FrameObs {
    Data(Bytes),
    Trailers(HeaderMap),
    Err(Code, String),
}

#[derive(Debug, Default)]
pub struct BodyObs {
    pub frames: Vec<FrameObs>,
    /// "trailers" | "error" | "none" | "end-stream-flag" | "hang" | "stalled" | "livelock"
    pub ended_by: &'static str,
    /// what the body returned when polled past its end (probe only; no HTTP stack sees this)
    pub past_end: Vec<String>,
}

impl BodyObs {
    pub fn data(&self) -> Vec<u8> {
        let mut v = vec![];
        for f in &self.frames {
            if let FrameObs::Data(b) = f {
                v.extend_from_slice(b);
            }
        }
        v
    }
    pub fn trailers(&self) -> Vec<&HeaderMap> {
        self.frames.iter().filter_map(|f| if let FrameObs::Trailers(t) = f { Some(t) } else { None }).collect()
    }
    pub fn error(&self) -> Option<(Code, String)> {
        self.frames.iter().find_map(|f| if let FrameObs::Err(c, m) = f { Some((*c, m.clone())) } else { None })
    }
}

/// Consume a body exactly the way hyper's HTTP/2 sender does: stop after a trailers frame, after an
/// error, at `None`, or after a data frame when `is_end_stream()` is true.  Then poll `past` more
/// times and record (not judge) what comes back.
pub fn consume_body<B>(sim: &Sim, body: &mut Pin<Box<B>>, past: u32) -> BodyObs
where
    B: Body<Data = Bytes, Error = Status> + ?Sized,
{
    let flag = Flag::new();
    let waker = Waker::from(flag.clone());
    let mut cx = Context::from_waker(&waker);
    let mut obs = BodyObs::default();
    let mut pendings = 0u64;
    obs.ended_by = loop {
        if body.is_end_stream() {
            break "end-stream-flag";
        }
        flag.take();
        match body.as_mut().poll_frame(&mut cx) {
            Poll::Ready(None) => break "none",
            Poll::Ready(Some(Err(s))) => {
                sim.ev(|| format!("wire: body error {:?} {:?}", s.code(), s.message()));
                obs.frames.push(FrameObs::Err(s.code(), s.message().to_string()));
                break "error";
            }
            Poll::Ready(Some(Ok(f))) => {
                if f.is_data() {
                    let d = f.into_data().unwrap();
                    sim.ev(|| format!("wire: DATA {}B {}", d.len(), crate::seams::hex_head(&d)));
                    obs.frames.push(FrameObs::Data(d));
                } else if f.is_trailers() {
                    let t = f.into_trailers().unwrap();
                    sim.ev(|| format!("wire: TRAILERS {:?}", t));
                    obs.frames.push(FrameObs::Trailers(t));
                    break "trailers";
                }
            }
            Poll::Pending => {
                if !flag.is_set() {
                    break if sim.stalled() { "stalled" } else { "hang" };
                }
                pendings += 1;
                if pendings > 200_000 || obs.frames.len() > 100_000 {
                    break "livelock";
                }
            }
        }
        if obs.frames.len() > 100_000 {
            break "livelock";
        }
    };
    if !matches!(obs.ended_by, "hang" | "stalled" | "livelock") {
        for _ in 0..past {
            flag.take();
            let s = match body.as_mut().poll_frame(&mut cx) {
                Poll::Ready(None) => "None".to_string(),
                Poll::Ready(Some(Err(s))) => format!("Err({:?})", s.code()),
                Poll::Ready(Some(Ok(f))) => {
                    if f.is_data() {
                        format!("Data({}B)", f.into_data().unwrap().len())
                    } else {
                        "Trailers".to_string()
                    }
                }
                Poll::Pending => "Pending".to_string(),
            };
            sim.ev(|| format!("wire(past end, not on the wire): {s}"));
            obs.past_end.push(s);
        }
    }
    obs
}
