//! C14 — a channel always answers and recovers when the peer comes back.  Engine N: real Channel
//! (Buffer worker, Reconnect, Connection, hyper/h2 client) and real Server; the connector and the
//! life of established connections are scripted by the tape.  Oracle: a two-state reference
//! automaton {Down, Up}.

use crate::c02::CompCfg;
use crate::handlers::{Handler, Script};
use crate::nharness::{endpoint, net_and_connector, run_sim, spawn_server, ClientOpts, ServerOpts};
use crate::rawcodec::RawMsg;
use bytes::Bytes;
use simcore::Sim;
use simnet::{ConnectStep, KillKind, NetCfg};
use std::time::Duration;
use tonic::Code;

#[derive(Clone, Copy, Debug, PartialEq, Eq)]
enum L {
    F,
    S,
    K,
}

pub const GRID: u64 = 2 * (3 + 9 + 27 + 81 + 243);

fn decode_grid(mut i: u64) -> (bool, Vec<L>) {
    let lazy = i % 2 == 0;
    i /= 2;
    let mut len = 1;
    let mut block = 3u64;
    while i >= block {
        i -= block;
        len += 1;
        block *= 3;
    }
    let mut v = vec![];
    for _ in 0..len {
        v.push([L::F, L::S, L::K][(i % 3) as usize]);
        i /= 3;
    }
    (lazy, v)
}

fn v14(sim: &Sim, class: &str, detail: String) {
    sim.violation(&format!("C14/{class}"), detail);
}

fn no_comp() -> CompCfg {
    CompCfg { server_accept: vec![], server_send: vec![], client_send: None, client_accept: vec![] }
}

type CallOut = Result<Vec<u8>, (Code, String)>;

async fn one_call(ch: &tonic::transport::Channel, id: u64) -> Option<CallOut> {
    one_call_with_timeout(ch, id, None).await
}

async fn one_call_with_timeout(ch: &tonic::transport::Channel, id: u64, timeout: Option<Duration>) -> Option<CallOut> {
    let mut client = crate::rawsvc::raw_client::RawClient::new(ch.clone());
    let mut req = tonic::Request::new(RawMsg(Bytes::from_static(b"ping")));
    req.metadata_mut().insert("sim-call", id.to_string().parse().unwrap());
    if let Some(t) = timeout {
        req.set_timeout(t);
    }
    match tokio::time::timeout(Duration::from_secs(120), client.unary(req)).await {
        Err(_) => None,
        Ok(r) => Some(r.map(|x| x.into_inner().0.to_vec()).map_err(|e| (e.code(), e.message().to_string()))),
    }
}

pub fn run_script(sim: &Sim, idx: u64) {
    let (lazy, script) = if idx < GRID {
        decode_grid(idx)
    } else {
        let n = if sim.chance(1, 6) { sim.range(9, 14) } else { sim.range(1, 8) };
        (sim.chance(1, 2), (0..n).map(|_| sim.pick(&[L::F, L::S, L::K])).collect())
    };
    use std::io::ErrorKind as K;
    let kinds = [K::ConnectionRefused, K::TimedOut, K::Other, K::ConnectionReset, K::NotFound, K::PermissionDenied, K::ConnectionAborted, K::BrokenPipe, K::UnexpectedEof, K::AddrNotAvailable, K::InvalidInput, K::Interrupted];
    // a connect timeout far above any simulated connect delay must not change anything
    let connect_timeout = if sim.chance(1, 3) { Some(Duration::from_secs(sim.pick(&[5u64, 60]))) } else { None };
    let netcfg = if sim.chance(1, 2) { NetCfg::ideal() } else { NetCfg { stall_pct: 0, ..NetCfg::draw(sim) } };
    let double = sim.chance(1, 4);
    sim.nontrivial();
    sim.sample(|| format!("{} channel, script {:?}, back-to-back calls={double}, connect_timeout={connect_timeout:?}", if lazy { "lazy" } else { "eager" }, script));
    sim.ev(|| format!("config: {} channel, script {:?}, double={double}", if lazy { "lazy" } else { "eager" }, script));
    let out = run_sim(sim, Duration::from_secs(100_000), || async {
        let (net, connector, rx) = net_and_connector(sim, netcfg, vec![]);
        let handler = Handler::new(sim);
        for i in 0..64u64 {
            handler.add_script(i, Script { msgs: vec![b"pong".to_vec()], ..Default::default() });
        }
        // the server's listener may first report transient accept errors: they must not keep it from
        // accepting the connections that follow
        let _srv = spawn_server::<std::future::Pending<()>>(&handler, &no_comp(), &ServerOpts { accept_errors_first: sim.pick(&[0u8, 0, 1, 4]), ..Default::default() }, rx, None);
        let mut ep = endpoint(&ClientOpts::default());
        if let Some(t) = connect_timeout {
            ep = ep.connect_timeout(t);
        }
        let mut up: Option<usize> = None; // model: connection id when Up
        let mut expected_attempts = 0usize;
        let mut call_id = 0u64;
        let mut letters = script.iter().copied().peekable();
        // ---- channel creation
        let ch = if lazy {
            ep.connect_with_connector_lazy(connector.clone())
        } else {
            // the first F/S letter decides the eager connect
            let mut first = None;
            while let Some(l) = letters.next() {
                if l != L::K {
                    first = Some(l);
                    break;
                }
            }
            let first = first.unwrap_or(L::S);
            connector.push_step(if first == L::F { ConnectStep::Fail(sim.pick(&kinds)) } else { ConnectStep::Ok { delay_us: sim.pick(&[0u64, 500]) } });
            expected_attempts += 1;
            let t0 = tokio::time::Instant::now();
            let r = tokio::time::timeout(Duration::from_secs(60), ep.connect_with_connector(connector.clone())).await;
            match (first, r) {
                (_, Err(_)) => {
                    v14(sim, "eager-connect-hangs", "connect_with_connector did not resolve within 60 virtual seconds".into());
                    return;
                }
                (L::F, Ok(Ok(_))) => {
                    v14(sim, "eager-initial-failure-not-reported", "the first connect attempt failed but connect() returned a channel".into());
                    return;
                }
                (L::F, Ok(Err(_))) => {
                    sim.probe("eager-initial-failure");
                    if connector.n_attempts() != 1 {
                        v14(sim, "connect-attempt-count", format!("eager connect failure after {} connector invocations", connector.n_attempts()));
                    }
                    if t0.elapsed() > Duration::from_secs(1) {
                        v14(sim, "eager-initial-failure-not-immediate", format!("reported after {:?}", t0.elapsed()));
                    }
                    return;
                }
                (_, Ok(Err(e))) => {
                    v14(sim, "eager-connect-failed-although-reachable", format!("{e}"));
                    return;
                }
                (_, Ok(Ok(c))) => {
                    up = connector.attempts.lock().unwrap().last().and_then(|a| a.conn_id);
                    c
                }
            }
        };
        // ---- the script; a final S checks recovery
        let mut rest: Vec<L> = letters.collect();
        rest.push(L::S);
        for l in rest {
            // quiescent point
            tokio::time::sleep(Duration::from_secs(1)).await;
            if l == L::K {
                if let Some(id) = up.take() {
                    net.kill(id, sim.pick(&[KillKind::Eof, KillKind::Reset]));
                    sim.probe("established-connection-dropped");
                }
                continue;
            }
            let ncalls = if double { 2 } else { 1 };
            // model: what each call in FIFO order will meet
            let mut expect: Vec<bool> = vec![]; // true = success
            let mut m_up = up.is_some();
            for k in 0..ncalls {
                if m_up {
                    expect.push(true);
                } else {
                    // the first call of the batch meets this letter, a second one the same letter again
                    let _ = k;
                    if l == L::F {
                        connector.push_step(ConnectStep::Fail(sim.pick(&kinds)));
                        expect.push(false);
                    } else {
                        connector.push_step(ConnectStep::Ok { delay_us: sim.pick(&[0u64, 500, 20_000]) });
                        expect.push(true);
                        m_up = true;
                    }
                    expected_attempts += 1;
                }
            }
            let before = connector.n_attempts();
            let ids: Vec<u64> = (0..ncalls).map(|_| { call_id += 1; call_id }).collect();
            // a call may carry a deadline that has already passed (zero): it may then end as
            // CANCELLED "Timeout expired" instead of its normal outcome, but it is dispatched like
            // any other call: whatever connection attempt it triggers is accounted to it, and
            // nothing of it may linger for the next call
            let zero_deadline = ncalls == 1 && sim.chance(1, 6);
            if zero_deadline {
                sim.fault("call-with-zero-deadline");
            }
            let outs: Vec<Option<CallOut>> = if ncalls == 2 {
                let (a, b) = tokio::join!(one_call(&ch, ids[0]), one_call(&ch, ids[1]));
                vec![a, b]
            } else {
                vec![one_call_with_timeout(&ch, ids[0], if zero_deadline { Some(Duration::ZERO) } else { None }).await]
            };
            for (k, o) in outs.iter().enumerate() {
                sim.ev(|| format!("call {} -> {:?} (expected success={})", ids[k], o, expect[k]));
                if zero_deadline && matches!(o, Some(Err((Code::Cancelled, m))) if m == "Timeout expired") {
                    sim.probe("zero-deadline-call-timed-out");
                    continue;
                }
                match (o, expect[k]) {
                    (None, _) => {
                        v14(sim, "call-hangs", format!("call {} did not complete within 120 virtual seconds (letter {l:?})", ids[k]));
                        return;
                    }
                    (Some(Ok(m)), true) => {
                        if m != b"pong" {
                            v14(sim, "wrong-response", format!("call {}: {:?}", ids[k], m));
                        }
                    }
                    (Some(Err((c, m))), true) => {
                        let was_down = up.is_none();
                        v14(sim, if was_down { "call-fails-although-endpoint-reachable" } else { "call-fails-on-established-connection" }, format!("call {} (letter {l:?}, channel was {}): {c:?} {m:?}", ids[k], if was_down { "down, next connect succeeds" } else { "up" }));
                    }
                    (Some(Ok(_)), false) => v14(sim, "call-succeeds-although-connect-failed", format!("call {}", ids[k])),
                    (Some(Err((c, m))), false) => {
                        sim.probe("connect-failure-reported-to-triggering-call");
                        if *c != Code::Unavailable {
                            v14(sim, "connect-failure-not-unavailable", format!("call {}: connector failed, caller sees {c:?} {m:?}", ids[k]));
                        }
                    }
                }
            }
            let used = connector.n_attempts() - before;
            let want: usize = expected_attempts - before.min(expected_attempts);
            if connector.n_attempts() != expected_attempts {
                v14(sim, "connect-attempt-count", format!("letter {l:?}: {used} connector invocations during this step, the reference automaton expects {want} (total {} vs {expected_attempts})", connector.n_attempts()));
                return;
            }
            if m_up && up.is_none() {
                up = connector.attempts.lock().unwrap().iter().rev().find_map(|a| a.conn_id);
            }
        }
        sim.probe("script-completed");
    });
    if out.is_none() {
        v14(sim, "run-hangs", "the scenario did not finish within the virtual horizon".into());
    }
}

/// Relaxed configuration: the connection dies *during* a call (at a drawn byte offset, possibly
/// inside the HTTP/2 handshake).  Oracle: a definite result, no hang, no panic, and the next call
/// at a quiescent point recovers.
pub fn run_midcall(sim: &Sim, _idx: u64) {
    let lazy = sim.chance(1, 2);
    let netcfg = NetCfg { stall_pct: 0, ..NetCfg::draw(sim) };
    let kill_at = sim.pick(&[0u64, 1, 9, 24, 30, 45, 60, 80, 100, 130, 160, 200, 260, 400]) + sim.range(0, 8);
    let kind = sim.pick(&[KillKind::Eof, KillKind::Reset, KillKind::Blackhole]);
    // a silent partition can only be noticed by HTTP/2 keep-alive: it is drawn with a keep-alive
    // interval configured (with or without an explicit keep-alive timeout) and lands after the
    // connection handshake; the call must then fail within interval + timeout, not hang
    let keepalive: Option<(Duration, Option<Duration>, bool)> = if kind == KillKind::Blackhole || sim.chance(1, 4) {
        Some((Duration::from_secs(sim.pick(&[1u64, 7])), sim.pick(&[None, Some(Duration::from_secs(3))]), sim.chance(1, 2)))
    } else {
        None
    };
    let kill_at = if kind == KillKind::Blackhole { kill_at.max(160) + sim.pick(&[0u64, 100, 1_000, 4_000]) } else { kill_at };
    if kind == KillKind::Blackhole {
        sim.fault("connection-blackholed-with-keepalive-configured");
    }
    let shape_stream = sim.chance(1, 3);
    sim.nontrivial();
    sim.sample(|| format!("{} channel; first connection dies ({kind:?}) after {kill_at} bytes; server-streaming={shape_stream}; client keep-alive {keepalive:?}", if lazy { "lazy" } else { "eager" }));
    sim.ev(|| format!("config: lazy={lazy} kill_at={kill_at} kind={kind:?} stream={shape_stream} keepalive={keepalive:?}"));
    let out = run_sim(sim, Duration::from_secs(100_000), || async {
        let (net, connector, rx) = net_and_connector(sim, netcfg, vec![]);
        let handler = Handler::new(sim);
        for i in 0..8u64 {
            handler.add_script(i, Script { msgs: vec![b"pong".to_vec(), sim.bytes(300), sim.bytes(5000)], gap_us: 1000, ..Default::default() });
        }
        let _srv = spawn_server::<std::future::Pending<()>>(&handler, &no_comp(), &ServerOpts::default(), rx, None);
        let ep = endpoint(&ClientOpts { keepalive, ..Default::default() });
        // the first connection created dies after `kill_at` bytes
        net.arm_kill_on_next_connection(kill_at, kind);
        let ch = if lazy {
            ep.connect_with_connector_lazy(connector.clone())
        } else {
            match tokio::time::timeout(Duration::from_secs(60), ep.connect_with_connector(connector.clone())).await {
                Err(_) => return v14(sim, "eager-connect-hangs", "connect did not resolve".into()),
                Ok(Err(_)) => {
                    // the handshake itself was cut: an immediate, definite failure is what the property asks for
                    sim.probe("eager-handshake-cut");
                    return;
                }
                Ok(Ok(c)) => c,
            }
        };
        // first call: any definite outcome
        let mut client = crate::rawsvc::raw_client::RawClient::new(ch.clone());
        let mut req = tonic::Request::new(RawMsg(Bytes::from_static(b"ping")));
        req.metadata_mut().insert("sim-call", "1".parse().unwrap());
        let first = tokio::time::timeout(Duration::from_secs(120), async {
            if shape_stream {
                match client.server_stream(req).await {
                    Err(e) => format!("call error {:?}", e.code()),
                    Ok(r) => {
                        let mut s = r.into_inner();
                        let mut n = 0;
                        loop {
                            match s.message().await {
                                Ok(Some(_)) => n += 1,
                                Ok(None) => break format!("ok {n} items"),
                                Err(e) => break format!("stream error {:?} after {n} items", e.code()),
                            }
                        }
                    }
                }
            } else {
                match client.unary(req).await {
                    Ok(_) => "ok".to_string(),
                    Err(e) => format!("call error {:?}", e.code()),
                }
            }
        })
        .await;
        match &first {
            Err(_) => return v14(sim, "call-hangs", format!("the call during which the connection died (after {kill_at} bytes) did not complete within 120 virtual seconds")),
            Ok(s) => {
                sim.ev(|| format!("first call: {s}"));
                if net.conn(0).lock().unwrap().is_killed() {
                    sim.probe("connection-died-during-call");
                }
            }
        }
        // recovery at a quiescent point: the connector now succeeds (default) and nothing is killed
        tokio::time::sleep(Duration::from_secs(2)).await;
        let mut last = None;
        for attempt in 0..2 {
            last = one_call(&ch, 2 + attempt).await;
            match &last {
                None => return v14(sim, "call-hangs", "a call after the fault did not complete within 120 virtual seconds".into()),
                Some(Ok(_)) => break,
                Some(Err(_)) => tokio::time::sleep(Duration::from_secs(2)).await,
            }
        }
        match last {
            Some(Ok(_)) => sim.probe("recovered-after-midcall-death"),
            Some(Err((c, m))) => v14(sim, "no-recovery-after-connection-death", format!("two calls at quiescent points after the fault both failed: {c:?} {m:?}")),
            None => {}
        }
    });
    if out.is_none() {
        v14(sim, "run-hangs", "the scenario did not finish within the virtual horizon".into());
    }
}

/// The peer retires connections *gracefully* (HTTP/2 GOAWAY after `max_connection_age`) while the
/// channel is idle or between calls: not a failure of any call, and every later call issued at a
/// quiescent point must succeed on a fresh connection without the application rebuilding the
/// channel.
pub fn run_goaway(sim: &Sim, _idx: u64) {
    let lazy = sim.chance(1, 2);
    let age = Duration::from_millis(sim.pick(&[5u64, 20, 200, 1_000]));
    let rounds = sim.range(2, 5);
    let netcfg = if sim.chance(1, 2) { NetCfg::ideal() } else { NetCfg { stall_pct: 0, ..NetCfg::draw(sim) } };
    let keepalive: Option<(Duration, Option<Duration>, bool)> = if sim.chance(1, 3) { Some((Duration::from_secs(sim.pick(&[1u64, 7])), None, sim.chance(1, 2))) } else { None };
    sim.nontrivial();
    sim.sample(|| format!("{} channel; server max_connection_age {age:?}; {rounds} rounds of calls at quiescent points; keep-alive {keepalive:?}", if lazy { "lazy" } else { "eager" }));
    sim.ev(|| format!("config: lazy={lazy} age={age:?} rounds={rounds} keepalive={keepalive:?}"));
    sim.fault("server-retires-connections-gracefully");
    let out = run_sim(sim, Duration::from_secs(100_000), || async {
        let (net, connector, rx) = net_and_connector(sim, netcfg, vec![]);
        let handler = Handler::new(sim);
        for i in 0..32u64 {
            handler.add_script(i, Script { msgs: vec![b"pong".to_vec()], ..Default::default() });
        }
        let _srv = spawn_server::<std::future::Pending<()>>(&handler, &no_comp(), &ServerOpts { max_connection_age: Some(age), ..Default::default() }, rx, None);
        let ep = endpoint(&ClientOpts { keepalive, ..Default::default() });
        let ch = if lazy {
            ep.connect_with_connector_lazy(connector.clone())
        } else {
            match tokio::time::timeout(Duration::from_secs(60), ep.connect_with_connector(connector.clone())).await {
                Ok(Ok(c)) => c,
                other => return v14(sim, "eager-connect-fails-although-endpoint-reachable", format!("{:?}", other.map(|r| r.map(|_| ()).map_err(|e| e.to_string())))),
            }
        };
        let mut id = 1u64;
        for round in 0..rounds {
            // quiescent: well past the age of whatever connection exists, so that it has been retired
            tokio::time::sleep(age * 3 + Duration::from_secs(sim.pick(&[1u64, 30]))).await;
            let conns_before = net.n_conns();
            let mut last = None;
            // a call may still meet the dying connection (its GOAWAY not yet seen); the property
            // asks that the *next* call succeeds
            for _attempt in 0..2 {
                last = one_call(&ch, id).await;
                id += 1;
                match &last {
                    None => return v14(sim, "call-hangs", format!("round {round}: a call after a graceful GOAWAY did not complete within 120 virtual seconds")),
                    Some(Ok(_)) => break,
                    Some(Err(_)) => tokio::time::sleep(Duration::from_millis(1)).await,
                }
            }
            match last {
                Some(Ok(_)) => sim.probe("call-after-graceful-goaway-succeeds"),
                Some(Err((c, m))) => return v14(sim, "call-fails-although-endpoint-reachable", format!("round {round}: after the server retired the connection gracefully two successive calls failed: {c:?} {m:?}")),
                None => {}
            }
            if round > 0 && net.n_conns() > conns_before {
                sim.probe("reconnected-after-goaway");
            }
        }
    });
    if out.is_none() {
        v14(sim, "run-hangs", "the scenario did not finish within the virtual horizon".into());
    }
}

/// A *balanced* channel (tower p2c `Balance` over lazily connected endpoints — what
/// `Channel::balance_list` / `balance_channel` build; hook H4 supplies the simulated connector)
/// under a script of failing and succeeding connection attempts and dying connections. Several
/// endpoints may attempt to connect while one call waits, so failures are not attributed one-to-one;
/// the relaxed oracle: every call completes (no hang), with a response or an UNAVAILABLE error;
/// never more failed calls than failed attempts; and once attempts succeed again, the channel
/// recovers after at most as many further calls as there were failed attempts.
pub fn run_balanced(sim: &Sim, _idx: u64) {
    // One endpoint only: with two or more, tower's p2c picks among the ready endpoints with a
    // random generator seeded from OS entropy — a source of nondeterminism neither tonic nor the
    // simulator owns (runs would not replay). With one endpoint the choice is forced and the
    // whole Balance -> Connection -> Reconnect path is still the one `balance_channel` builds.
    let k = 1usize;
    let nsteps = sim.range(0, 6) as usize;
    use std::io::ErrorKind as K;
    let script: Vec<ConnectStep> = (0..nsteps).map(|_| if sim.chance(2, 3) { ConnectStep::Fail(sim.pick(&[K::ConnectionRefused, K::TimedOut, K::Other])) } else { ConnectStep::Ok { delay_us: sim.pick(&[0u64, 500, 20_000]) } }).collect();
    let rounds = sim.range(2, 6) as usize;
    let kill_after: Option<usize> = if sim.chance(1, 3) { Some(sim.range(0, rounds as u64 - 1) as usize) } else { None };
    let netcfg = if sim.chance(1, 2) { NetCfg::ideal() } else { NetCfg { stall_pct: 0, ..NetCfg::draw(sim) } };
    // The application replaces the endpoint behind key 0 (the discovery stream of
    // `balance_channel`): the old host is gone for good (every attempt to it is refused), the new
    // one follows the script. `remove_first`: Remove(0) then Insert(0, new); otherwise Insert over
    // the live key. From then on only the new endpoint is registered, so the same oracle applies
    // to it — a call still routed to the old endpoint shows as a failure that never recovers.
    let replace_after: Option<(usize, bool)> = if sim.chance(1, 3) { Some((sim.range(0, rounds as u64 - 1) as usize, sim.chance(1, 2))) } else { None };
    sim.nontrivial();
    sim.sample(|| format!("balanced channel over {k} endpoints; connect script {script:?} then reachable; {rounds} rounds; kill all connections after round {kill_after:?}; endpoint replaced after round {replace_after:?}"));
    sim.ev(|| format!("config: k={k} script={script:?} rounds={rounds} kill_after={kill_after:?} replace_after={replace_after:?}"));
    let out = run_sim(sim, Duration::from_secs(100_000), || async {
        let (net, connector, rx) = net_and_connector(sim, netcfg, script.clone());
        let handler = Handler::new(sim);
        for i in 0..256u64 {
            handler.add_script(i, Script { msgs: vec![b"pong".to_vec()], ..Default::default() });
        }
        let _srv = spawn_server::<std::future::Pending<()>>(&handler, &no_comp(), &ServerOpts::default(), rx, None);
        let (ch, tx) = tonic::transport::verif_hooks::balance_channel_with_connector::<usize, _>(16, connector.clone());
        const HOSTS: [&str; 3] = ["http://sim-a.test:50051", "http://sim-b.test:50051", "http://sim-c.test:50051"];
        for (i, h) in HOSTS.iter().enumerate().take(k) {
            let _ = tx.send(tonic::transport::channel::Change::Insert(i, tonic::transport::Endpoint::from_static(h))).await;
        }
        let mut id = 0u64;
        let mut failed_calls = 0usize;
        let failed_attempts = |c: &simnet::SimConnector| c.attempts.lock().unwrap().iter().filter(|a| matches!(a.step, ConnectStep::Fail(_))).count();
        for round in 0..rounds {
            tokio::time::sleep(Duration::from_secs(1)).await;
            id += 1;
            let attempts_before = connector.n_attempts();
            let r = one_call(&ch, id).await;
            // with a single endpoint a call triggers at most one connection attempt, whose failure
            // is that call's outcome (it does not keep reconnecting on the caller's time)
            if connector.n_attempts() > attempts_before + 1 {
                return v14(sim, "connect-attempt-count", format!("balanced channel, round {round}: one call caused {} connection attempts (outcome {:?})", connector.n_attempts() - attempts_before, r.as_ref().map(|x| x.as_ref().map(|_| ()).map_err(|e| e.0))));
            }
            match r {
                None => return v14(sim, "call-hangs", format!("balanced channel, round {round}: the call did not complete within 120 virtual seconds ({} connection attempts so far, {} failed)", connector.n_attempts(), failed_attempts(&connector))),
                Some(Ok(m)) => {
                    if m != b"pong" {
                        v14(sim, "wrong-response", format!("balanced channel: {m:?}"));
                    }
                }
                Some(Err((c, m))) => {
                    failed_calls += 1;
                    if c != Code::Unavailable {
                        v14(sim, "connect-failure-not-unavailable", format!("balanced channel, round {round}: {c:?} {m:?}"));
                    }
                }
            }
            if failed_calls > failed_attempts(&connector) {
                return v14(sim, "connect-failure-replayed", format!("balanced channel: {failed_calls} calls have failed but only {} connection attempts did", failed_attempts(&connector)));
            }
            if kill_after == Some(round) {
                for cid in 0..net.n_conns() {
                    net.kill(cid, sim.pick(&[KillKind::Eof, KillKind::Reset]));
                }
                sim.probe("balanced-connections-killed");
            }
            if let Some((r, remove_first)) = replace_after {
                if r == round {
                    connector.dead_hosts.lock().unwrap().push("sim-a.test".to_string());
                    if remove_first {
                        let _ = tx.send(tonic::transport::channel::Change::Remove(0)).await;
                    }
                    let _ = tx.send(tonic::transport::channel::Change::Insert(0, tonic::transport::Endpoint::from_static(HOSTS[1]))).await;
                    sim.ev(|| format!("application: endpoint 0 replaced by {} (remove first: {remove_first}); sim-a.test is gone", HOSTS[1]));
                    sim.probe("balanced-endpoint-replaced");
                }
            }
        }
        // recovery: the script is finite; from now on attempts succeed
        connector.script.lock().unwrap().clear();
        let budget = failed_attempts(&connector) + k + 2;
        let mut last_ok = false;
        for _ in 0..budget {
            tokio::time::sleep(Duration::from_secs(1)).await;
            id += 1;
            match one_call(&ch, id).await {
                None => return v14(sim, "call-hangs", "balanced channel: a call during recovery did not complete within 120 virtual seconds".into()),
                Some(Ok(_)) => last_ok = true,
                Some(Err(_)) => {
                    last_ok = false;
                    failed_calls += 1;
                }
            }
            if failed_calls > failed_attempts(&connector) {
                return v14(sim, "connect-failure-replayed", format!("balanced channel: {failed_calls} calls have failed but only {} connection attempts did", failed_attempts(&connector)));
            }
        }
        if replace_after.is_some() && last_ok {
            // the last successful call travelled over a connection to the endpoint now registered
            let last_host = connector.attempts.lock().unwrap().iter().rev().find(|a| a.conn_id.is_some()).map(|a| a.host.clone());
            if last_host.as_deref() == Some("sim-b.test") {
                sim.probe("balanced-call-served-by-replacement-endpoint");
            }
        }
        if last_ok {
            sim.probe("balanced-channel-recovered");
        } else {
            v14(sim, "call-fails-although-endpoint-reachable", format!("balanced channel: every endpoint has been reachable for {budget} calls at quiescent points, the last one still failed"));
        }
    });
    if out.is_none() {
        v14(sim, "run-hangs", "the scenario did not finish within the virtual horizon".into());
    }
}

/// `Endpoint::connect_timeout`: a connection attempt that neither fails nor succeeds (the peer
/// black-holes the SYN) or succeeds only after the timeout is given up after `connect_timeout`, on
/// eager and on lazy channels alike; the call that triggered it gets a definite error and the next
/// call, with the endpoint reachable again, succeeds.
pub fn run_connect_timeout(sim: &Sim, _idx: u64) {
    let lazy = sim.chance(1, 2);
    let t_ms = sim.pick(&[50u64, 2_000]);
    let t = Duration::from_millis(t_ms);
    let first_delay_us: u64 = match sim.draw(3) {
        0 => 1_000_000_000_000, // never completes
        1 => t_ms * 1_000 + sim.pick(&[1_000u64, 500_000]),
        _ => t_ms * 3_000,
    };
    let netcfg = NetCfg::ideal();
    sim.nontrivial();
    sim.sample(|| format!("{} channel, connect_timeout {t:?}, first attempt would take {first_delay_us}us", if lazy { "lazy" } else { "eager" }));
    sim.ev(|| format!("config: lazy={lazy} connect_timeout={t:?} first_delay_us={first_delay_us}"));
    sim.fault("connect-attempt-outlasts-connect-timeout");
    let out = run_sim(sim, Duration::from_secs(1_000_000), || async {
        let (_net, connector, rx) = net_and_connector(sim, netcfg, vec![ConnectStep::Ok { delay_us: first_delay_us }]);
        let handler = Handler::new(sim);
        for i in 0..8u64 {
            handler.add_script(i, Script { msgs: vec![b"pong".to_vec()], ..Default::default() });
        }
        let _srv = spawn_server::<std::future::Pending<()>>(&handler, &no_comp(), &ServerOpts::default(), rx, None);
        let ep = endpoint(&ClientOpts::default()).connect_timeout(t);
        let slack = Duration::from_millis(200);
        let ch = if lazy {
            ep.connect_with_connector_lazy(connector.clone())
        } else {
            let t0 = tokio::time::Instant::now();
            match tokio::time::timeout(Duration::from_secs(600), ep.connect_with_connector(connector.clone())).await {
                Err(_) => return v14(sim, "eager-connect-hangs", format!("connect_timeout {t:?}: connect() did not resolve within 600 virtual seconds")),
                Ok(Ok(_)) => return v14(sim, "connect-timeout-not-enforced", format!("connect_timeout {t:?}: connect() succeeded with an attempt that takes {first_delay_us}us")),
                Ok(Err(_)) => {
                    if t0.elapsed() > t + slack || t0.elapsed() + Duration::from_millis(1) < t {
                        v14(sim, "connect-timeout-not-enforced", format!("connect_timeout {t:?}: connect() failed after {:?}", t0.elapsed()));
                    }
                    sim.probe("eager-connect-timed-out");
                    return;
                }
            }
        };
        let t0 = tokio::time::Instant::now();
        match one_call(&ch, 1).await {
            None => return v14(sim, "call-hangs", format!("lazy channel, connect_timeout {t:?}: the call that triggered the hanging attempt did not complete within 120 virtual seconds")),
            Some(Ok(_)) => return v14(sim, "connect-timeout-not-enforced", format!("connect_timeout {t:?}: the call succeeded over an attempt that takes {first_delay_us}us")),
            Some(Err((c, m))) => {
                if t0.elapsed() > t + slack {
                    v14(sim, "connect-timeout-not-enforced", format!("connect_timeout {t:?}: the call failed only after {:?} ({c:?} {m:?})", t0.elapsed()));
                }
                sim.probe("lazy-connect-timed-out");
            }
        }
        tokio::time::sleep(Duration::from_secs(1)).await;
        let mut last = None;
        for k in 0..2 {
            last = one_call(&ch, 2 + k).await;
            match &last {
                None => return v14(sim, "call-hangs", "a call after the timed-out attempt did not complete within 120 virtual seconds".into()),
                Some(Ok(_)) => break,
                Some(Err(_)) => tokio::time::sleep(Duration::from_secs(1)).await,
            }
        }
        match last {
            Some(Ok(_)) => sim.probe("recovered-after-connect-timeout"),
            Some(Err((c, m))) => v14(sim, "call-fails-although-endpoint-reachable", format!("after a timed-out attempt two calls at quiescent points failed: {c:?} {m:?}")),
            None => {}
        }
    });
    if out.is_none() {
        v14(sim, "run-hangs", "the scenario did not finish within the virtual horizon".into());
    }
}

/// An endpoint whose URI lacks a scheme (`Endpoint::from_static("sim.test:50051")` parses — as an
/// authority): no connection can ever be made for it. Every call still gets a definite error, none
/// hangs, nothing panics in the channel's background task, and the channel keeps answering.
pub fn run_uri_without_scheme(sim: &Sim, _idx: u64) {
    let lazy = sim.chance(1, 2);
    let uri: &'static str = sim.pick(&["sim.test:50051", "sim.test:1", "localhost:50051"]);
    sim.nontrivial();
    sim.sample(|| format!("{} channel to {uri:?} (no scheme)", if lazy { "lazy" } else { "eager" }));
    sim.ev(|| format!("config: lazy={lazy} uri={uri:?}"));
    let out = run_sim(sim, Duration::from_secs(100_000), || async {
        let (_net, connector, rx) = net_and_connector(sim, NetCfg::ideal(), vec![]);
        let handler = Handler::new(sim);
        for i in 0..8u64 {
            handler.add_script(i, Script { msgs: vec![b"pong".to_vec()], ..Default::default() });
        }
        let _srv = spawn_server::<std::future::Pending<()>>(&handler, &no_comp(), &ServerOpts::default(), rx, None);
        let ep = tonic::transport::Endpoint::from_static(uri);
        let ch = if lazy {
            ep.connect_with_connector_lazy(connector.clone())
        } else {
            match tokio::time::timeout(Duration::from_secs(60), ep.connect_with_connector(connector.clone())).await {
                Err(_) => return v14(sim, "eager-connect-hangs", format!("connect to {uri:?} did not resolve")),
                Ok(Err(_)) => {
                    sim.probe("eager-connect-refuses-uri-without-scheme");
                    return;
                }
                Ok(Ok(c)) => c,
            }
        };
        let mut outcomes = vec![];
        for k in 0..3u64 {
            match one_call(&ch, k + 1).await {
                None => return v14(sim, "call-hangs", format!("call {k} on a channel to {uri:?} did not complete within 120 virtual seconds")),
                Some(r) => outcomes.push(r.map(|_| ()).map_err(|e| e.0)),
            }
            tokio::time::sleep(Duration::from_millis(10)).await;
        }
        sim.ev(|| format!("outcomes {outcomes:?}"));
        // whatever the first call is told, the later ones are told the same: the channel is not
        // worse off for having been asked
        if outcomes.iter().any(|o| *o != outcomes[0]) {
            v14(sim, "channel-degrades-after-a-failed-call", format!("calls on a channel to {uri:?}: {outcomes:?}"));
        }
        sim.probe("uri-without-scheme-answered");
    });
    if out.is_none() {
        v14(sim, "run-hangs", "the scenario did not finish within the virtual horizon".into());
    }
}
