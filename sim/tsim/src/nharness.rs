//! Engine-N harness: real tonic Server and Channel (hyper, h2, tower Buffer/Reconnect, axum router)
//! on a tokio current-thread runtime with a paused clock, over `simnet`.

use crate::c02::CompCfg;
use crate::handlers::Handler;
use simcore::Sim;
use simnet::{ConnectStep, NetCfg, SimConnector, SimNet, SimStream};
use std::future::Future;
use std::time::Duration;
use tokio::sync::mpsc::UnboundedReceiver;
use tokio_stream::StreamExt;
use tonic::transport::{Channel, Endpoint, Server};

#[derive(Clone, Debug, Default)]
pub struct ServerOpts {
    pub timeout: Option<Duration>,
    pub stream_window: Option<u32>,
    pub conn_window: Option<u32>,
    pub max_frame: Option<u32>,
    pub concurrency_limit: Option<usize>,
    pub max_concurrent_streams: Option<u32>,
    /// (interval, timeout)
    pub keepalive: Option<(Duration, Duration)>,
    /// only used by fault-injecting scenarios with a relaxed oracle: the server closes connections
    /// gracefully (GOAWAY) after this age
    pub max_connection_age: Option<Duration>,
    /// the application adds a tower layer of its own (`Server::layer`, here the identity layer)
    /// after everything else has been configured: the settings made before it stay in force
    pub user_layer: bool,
    /// the listener reports this many transient accept errors before its first connection
    pub accept_errors_first: u8,
}

#[derive(Clone, Debug, Default)]
pub struct ClientOpts {
    pub timeout: Option<Duration>,
    pub stream_window: Option<u32>,
    pub conn_window: Option<u32>,
    pub lazy: bool,
    pub concurrency_limit: Option<usize>,
    /// (requests, per duration)
    pub rate_limit: Option<(u64, Duration)>,
    pub buffer_size: Option<usize>,
    /// (interval, timeout (None = hyper's default of 20 s), while idle)
    pub keepalive: Option<(Duration, Option<Duration>, bool)>,
    pub user_agent: Option<&'static str>,
}

/// Run `f` on a fresh simulated runtime; the virtual horizon turns a deadlock into a value.
pub fn run_sim<F, Fut, T>(sim: &Sim, horizon: Duration, f: F) -> Option<T>
where
    F: FnOnce() -> Fut,
    Fut: Future<Output = T>,
{
    let rt = simnet::runtime(sim, sim.content_seed());
    // also when a panic unwinds out of the scenario: the trace is frozen before the runtime (and
    // with it every task, in an order the simulator does not own) is dropped
    let _freeze = simnet::freeze_guard(sim);
    let out = rt.block_on(async {
        let t0 = tokio::time::Instant::now();
        let r = tokio::time::timeout(horizon, f()).await;
        sim.add_time_ns(t0.elapsed().as_nanos() as u64);
        r.ok()
    });
    // dropping the runtime drops every task (server, connections); the order in which tokio drops
    // them depends on process-global task ids, so it is not recorded
    sim.freeze();
    drop(rt);
    out
}

/// Spawn a real tonic server with the three harness services on the streams coming out of `rx`.
pub fn spawn_server<S>(handler: &Handler, comp: &CompCfg, opts: &ServerOpts, rx: UnboundedReceiver<SimStream>, shutdown: Option<S>) -> tokio::task::JoinHandle<Result<(), tonic::transport::Error>>
where
    S: Future<Output = ()> + Send + 'static,
{
    spawn_server_hooked(handler, comp, opts, rx, shutdown, None)
}

/// `on_yield` is called with the connection id at the instant the incoming stream hands that
/// connection to the server's accept loop (used to place a fault exactly there).
pub fn spawn_server_hooked<S>(handler: &Handler, comp: &CompCfg, opts: &ServerOpts, rx: UnboundedReceiver<SimStream>, shutdown: Option<S>, on_yield: Option<Box<dyn FnMut(usize) + Send>>) -> tokio::task::JoinHandle<Result<(), tonic::transport::Error>>
where
    S: Future<Output = ()> + Send + 'static,
{
    let incoming = tokio_stream::wrappers::UnboundedReceiverStream::new(rx).map(Ok::<_, std::io::Error>);
    spawn_server_incoming(handler, comp, opts, incoming, shutdown, on_yield)
}

/// The most general form: any incoming stream (it may yield accept errors and may end).
pub fn spawn_server_incoming<S, I>(handler: &Handler, comp: &CompCfg, opts: &ServerOpts, incoming: I, shutdown: Option<S>, mut on_yield: Option<Box<dyn FnMut(usize) + Send>>) -> tokio::task::JoinHandle<Result<(), tonic::transport::Error>>
where
    S: Future<Output = ()> + Send + 'static,
    I: tokio_stream::Stream<Item = Result<SimStream, std::io::Error>> + Send + 'static,
{
    let raw = crate::c02::configure!(crate::rawsvc::raw_server::RawServer::new(handler.clone()), comp, server);
    let echo = crate::c02::configure!(crate::pb::echo_server::EchoServer::new(handler.clone()), comp, server);
    let bare = crate::c02::configure!(crate::nopkg::bare_server::BareServer::new(handler.clone()), comp, server);
    let mut b = Server::builder();
    if let Some(t) = opts.timeout {
        b = b.timeout(t);
    }
    if let Some(w) = opts.stream_window {
        b = b.initial_stream_window_size(w);
    }
    if let Some(w) = opts.conn_window {
        b = b.initial_connection_window_size(w);
    }
    if let Some(m) = opts.max_frame {
        b = b.max_frame_size(m);
    }
    if let Some(c) = opts.concurrency_limit {
        b = b.concurrency_limit_per_connection(c);
    }
    if let Some(m) = opts.max_concurrent_streams {
        b = b.max_concurrent_streams(m);
    }
    if let Some((i, t)) = opts.keepalive {
        b = b.http2_keepalive_interval(Some(i)).http2_keepalive_timeout(Some(t));
    }
    if let Some(a) = opts.max_connection_age {
        b = b.max_connection_age(a);
    }
    let errs: Vec<Result<SimStream, std::io::Error>> = (0..opts.accept_errors_first)
        .map(|k| Err(std::io::Error::new([std::io::ErrorKind::ConnectionAborted, std::io::ErrorKind::TimedOut, std::io::ErrorKind::ConnectionReset, std::io::ErrorKind::Interrupted][k as usize % 4], "simulated transient accept error")))
        .collect();
    let incoming = tokio_stream::iter(errs).chain(incoming).map(move |io| {
        if let (Some(f), Ok(io)) = (on_yield.as_mut(), &io) {
            f(io.conn_id());
        }
        io
    });
    if opts.user_layer {
        let mut b = b.layer(tower::layer::util::Identity::new());
        let router = b.add_service(raw).add_service(echo).add_service(bare);
        tokio::spawn(async move {
            match shutdown {
                Some(sig) => router.serve_with_incoming_shutdown(incoming, sig).await,
                None => router.serve_with_incoming(incoming).await,
            }
        })
    } else {
        let router = b.add_service(raw).add_service(echo).add_service(bare);
        tokio::spawn(async move {
            match shutdown {
                Some(sig) => router.serve_with_incoming_shutdown(incoming, sig).await,
                None => router.serve_with_incoming(incoming).await,
            }
        })
    }
}

pub fn endpoint(opts: &ClientOpts) -> Endpoint {
    let mut e = Endpoint::from_static("http://sim.test:50051");
    if let Some(t) = opts.timeout {
        e = e.timeout(t);
    }
    if let Some(w) = opts.stream_window {
        e = e.initial_stream_window_size(w);
    }
    if let Some(w) = opts.conn_window {
        e = e.initial_connection_window_size(w);
    }
    if let Some(c) = opts.concurrency_limit {
        e = e.concurrency_limit(c);
    }
    if let Some((n, d)) = opts.rate_limit {
        e = e.rate_limit(n, d);
    }
    if let Some(b) = opts.buffer_size {
        e = e.buffer_size(b);
    }
    if let Some((i, t, idle)) = opts.keepalive {
        e = e.http2_keep_alive_interval(i).keep_alive_while_idle(idle);
        if let Some(t) = t {
            e = e.keep_alive_timeout(t);
        }
    }
    if let Some(ua) = opts.user_agent {
        e = e.user_agent(ua).expect("harness: user agent");
    }
    e
}

pub async fn connect(opts: &ClientOpts, connector: SimConnector) -> Result<Channel, tonic::transport::Error> {
    let e = endpoint(opts);
    if opts.lazy {
        Ok(e.connect_with_connector_lazy(connector))
    } else {
        e.connect_with_connector(connector).await
    }
}

pub fn net_and_connector(sim: &Sim, cfg: NetCfg, script: Vec<ConnectStep>) -> (SimNet, SimConnector, UnboundedReceiver<SimStream>) {
    let net = SimNet::new(sim, cfg);
    let (c, rx) = SimConnector::new(&net, script);
    (net, c, rx)
}

pub fn draw_h2_opts(sim: &Sim) -> (ServerOpts, ClientOpts) {
    // windows stay below the pipe capacity (>= 256 KiB), see simnet::NetCfg::draw
    let win = |s: &Sim| if s.chance(1, 2) { Some(s.pick(&[64u32, 1024, 65_535, 200_000])) } else { None };
    // the connection-level window cannot be made smaller than the HTTP/2 default by SETTINGS; asking
    // hyper/h2 for a smaller target makes h2 account for less than the peer was told and the
    // connection fails with flow-control errors (seen in simulation; outside these properties)
    let cwin = |s: &Sim| if s.chance(1, 2) { Some(s.pick(&[65_535u32, 200_000, 1 << 20])) } else { None };
    let mut so = ServerOpts { timeout: None, stream_window: win(sim), conn_window: cwin(sim), max_frame: if sim.chance(1, 3) { Some(sim.pick(&[16_384u32, 20_000, 1 << 20])) } else { None }, ..Default::default() };
    let mut co = ClientOpts { timeout: None, stream_window: win(sim), conn_window: cwin(sim), lazy: sim.chance(1, 2), ..Default::default() };
    // swarm: in a third of the runs the tuning knobs that must be transparent to a call's outcome
    // are set to drawn (often extreme) values, so that correctness never depends on the defaults
    if sim.chance(1, 3) {
        // Not transparent, hence not drawn small (both were tried and raised false alarms, DESIGN.md
        // 13.5): a server `concurrency_limit_per_connection` below the number of concurrent calls
        // dead-locks with HTTP/2 flow control (the request bodies of calls waiting for a permit fill
        // the connection window, the call holding the permit waits for its own request body), and a
        // small `max_concurrent_streams` makes h2 refuse streams (REFUSED_STREAM -> UNAVAILABLE)
        // that the client opened while the server still counted a finished one.
        if sim.chance(1, 2) {
            so.concurrency_limit = Some(sim.pick(&[64usize, 1024]));
        }
        if sim.chance(1, 2) {
            so.max_concurrent_streams = Some(sim.pick(&[100u32, 1000]));
        }
        if sim.chance(1, 3) {
            so.keepalive = Some((Duration::from_millis(sim.pick(&[300u64, 5_000])), Duration::from_secs(20)));
        }
        so.user_layer = sim.chance(1, 2);
        so.accept_errors_first = sim.pick(&[0u8, 0, 1, 3]);
        if sim.chance(1, 2) {
            co.concurrency_limit = Some(sim.pick(&[1usize, 3]));
        }
        if sim.chance(1, 3) {
            co.rate_limit = Some((sim.pick(&[1u64, 5]), Duration::from_millis(sim.pick(&[1u64, 50]))));
        }
        if sim.chance(1, 2) {
            co.buffer_size = Some(sim.pick(&[1usize, 2, 64]));
        }
        if sim.chance(1, 3) {
            co.keepalive = Some((Duration::from_millis(sim.pick(&[300u64, 5_000])), if sim.chance(1, 2) { Some(Duration::from_secs(20)) } else { None }, sim.chance(1, 2)));
        }
        if sim.chance(1, 3) {
            co.user_agent = Some(sim.pick(&["sim-agent/1.0", "x"]));
        }
        sim.probe("tuning-knobs-drawn");
    }
    (so, co)
}
