//! C07 — hostile or truncated input ends a stream with one error, never a hang or panic.
//! Engine F: `tonic::codec::Streaming` is real; the body, its chunking, readiness, errors and the
//! bytes themselves are simulated.

use crate::fdrive::{check_terminal, drain_stream, show, SEv};
use crate::indep::{self, Enc, ParseEnd};
use crate::pb::Msg;
use crate::rawcodec::{RawCfg, RawCodec, RawMsg};
use crate::seams::{cut_bytes, ErrKind, Ev, Segmented, SimBody};
use bytes::Bytes;
use http::{HeaderMap, HeaderValue, StatusCode};
use prost::Message;
use simcore::Sim;
use tonic::codec::{BufferSettings, Codec, ProstCodec, Streaming};

#[derive(Clone, Debug)]
pub enum RefItem {
    Known(Vec<u8>),
    /// compressed frame whose payload the independent inflater rejects: content not judged
    Unjudged,
}

#[derive(Debug)]
pub struct Reference {
    pub items: Vec<RefItem>,
    /// None = the byte string is a clean concatenation of acceptable frames
    pub defect: Option<String>,
}

/// Sequential reference parser: which messages does this byte string contain before the first
/// framing defect?  `prost` = the payload must also decode as `simpb.Msg`.
pub fn reference(data: &[u8], enc: Option<Enc>, limit: usize, prost: bool) -> Reference {
    let (frames, end) = indep::parse_frames(data);
    let mut items = vec![];
    // the limit applies to the declared length, also of a frame whose payload never arrives
    for f in &frames {
        if f.flag > 1 {
            return Reference { items, defect: Some(format!("illegal flag {} at {}", f.flag, f.start)) };
        }
        if f.flag == 1 && enc.is_none() {
            return Reference { items, defect: Some(format!("compressed flag without encoding at {}", f.start)) };
        }
        if f.payload.len() > limit {
            return Reference { items, defect: Some(format!("length {} over limit {} at {}", f.payload.len(), limit, f.start)) };
        }
        let ser: Option<Vec<u8>> = if f.flag == 1 {
            indep::inflate(enc.unwrap(), &f.payload, 8 << 20).ok()
        } else {
            Some(f.payload.clone())
        };
        match ser {
            None => items.push(RefItem::Unjudged),
            Some(s) => {
                if prost {
                    match Msg::decode(&s[..]) {
                        Ok(m) => items.push(RefItem::Known(m.encode_to_vec())),
                        Err(e) => return Reference { items, defect: Some(format!("payload at {} is not a simpb.Msg: {e}", f.start)) },
                    }
                } else {
                    items.push(RefItem::Known(s));
                }
            }
        }
    }
    match end {
        ParseEnd::Clean => Reference { items, defect: None },
        ParseEnd::Truncated { at } => Reference { items, defect: Some(format!("truncated frame at {at}")) },
    }
}

pub fn gen_msg_sizes(sim: &Sim, k: u64, big: usize) -> Vec<usize> {
    (0..k)
        .map(|_| match sim.weighted(&[3, 3, 2, 1]) {
            0 => sim.pick(&[0usize, 1, 4, 5, 6]),
            1 => sim.range(0, 200.min(big as u64)) as usize,
            2 => sim.range(200.min(big as u64), 5000.min(big as u64)) as usize,
            _ => sim.range(5000.min(big as u64), big as u64) as usize,
        })
        .collect()
}

pub fn gen_pb(sim: &Sim, size: usize) -> Msg {
    let mut m = Msg::default();
    if sim.chance(1, 2) {
        m.tag = sim.content_seed();
    }
    match sim.draw(3) {
        0 => m.data = sim.bytes(size),
        1 => m.text = String::from_utf8_lossy(&sim.bytes(size)).into_owned(),
        _ => {
            m.data = sim.bytes(size / 2);
            let n = (size / 8).min(50);
            m.nums = (0..n).map(|i| (i as u32).wrapping_mul(2654435761)).collect();
        }
    }
    m
}

fn status_trailers(code: u32, msg: &str) -> HeaderMap {
    let mut h = HeaderMap::new();
    h.insert("grpc-status", HeaderValue::from_str(&code.to_string()).unwrap());
    if !msg.is_empty() {
        h.insert("grpc-message", HeaderValue::from_str(msg).unwrap());
    }
    h
}

pub fn run(sim: &Sim, _idx: u64) {
    // ---- configuration of this run (swarm) ----
    let direction = sim.weighted(&[4, 4, 1, 1]); // request, response 200, response other, empty
    // `Streaming::new_empty` takes neither an encoding nor a limit
    let enc: Option<Enc> = if direction != 3 && sim.chance(1, 3) { Some(sim.pick(&indep::ALL_ENC)) } else { None };
    let limit: Option<usize> = if direction != 3 && sim.chance(1, 4) { Some(sim.pick(&[0usize, 1, 5, 100, 1000, 70000])) } else { None };
    let prost = sim.chance(1, 4);
    let dec_buffer = sim.pick(&[1usize, 7, 64, 8192]);
    let pending_pct = sim.pick(&[0u64, 0, 10, 50, 90]);

    // ---- a valid stream built by the independent encoder ----
    let k = sim.range(0, 5);
    let sizes = gen_msg_sizes(sim, k, 20_000);
    let mut data: Vec<u8> = vec![];
    let mut starts: Vec<usize> = vec![];
    for sz in &sizes {
        let ser = if prost { gen_pb(sim, *sz).encode_to_vec() } else { sim.bytes(*sz) };
        starts.push(data.len());
        match enc {
            Some(e) if sim.chance(2, 3) => data.extend(indep::frame(1, &indep::compress(e, &ser))),
            _ => data.extend(indep::frame(0, &ser)),
        }
    }

    // ---- mutations ----
    let nmut = sim.weighted(&[2, 5, 2, 1]);
    let mut muts: Vec<String> = vec![];
    for _ in 0..nmut {
        let which = sim.weighted(&[3, 2, 3, 4, 2, 2, 1, 1]);
        match which {
            0 if !starts.is_empty() => {
                let s = sim.pick(&starts);
                if s < data.len() {
                    data[s] = sim.range(2, 255) as u8;
                    muts.push(format!("flag@{s}={}", data[s]));
                    sim.fault("mut-illegal-flag");
                }
            }
            1 if !starts.is_empty() => {
                let s = sim.pick(&starts);
                if s < data.len() {
                    data[s] = 1;
                    muts.push(format!("flag@{s}=1"));
                    sim.fault("mut-flag-compressed");
                }
            }
            2 if !starts.is_empty() => {
                let s = sim.pick(&starts);
                if s + 5 <= data.len() {
                    let cur = u32::from_be_bytes([data[s + 1], data[s + 2], data[s + 3], data[s + 4]]);
                    let new = match sim.draw(5) {
                        0 => cur.wrapping_add(1),
                        1 => cur.wrapping_sub(1),
                        2 => u32::MAX,
                        3 => cur.wrapping_add(sim.range(1, 100_000) as u32),
                        _ => sim.content_seed() as u32,
                    };
                    data[s + 1..s + 5].copy_from_slice(&new.to_be_bytes());
                    muts.push(format!("len@{s}:{cur}->{new}"));
                    sim.fault("mut-length");
                }
            }
            3 if !data.is_empty() => {
                let t = if !starts.is_empty() && sim.chance(1, 2) {
                    // near a frame start / inside a prefix
                    (sim.pick(&starts) + sim.range(0, 7) as usize).min(data.len() - 1)
                } else {
                    sim.range(0, data.len() as u64 - 1) as usize
                };
                data.truncate(t);
                muts.push(format!("truncate@{t}"));
                sim.fault("mut-truncate");
            }
            4 if !data.is_empty() => {
                let p = sim.range(0, data.len() as u64 - 1) as usize;
                data[p] ^= 1 << sim.draw(8);
                muts.push(format!("bitflip@{p}"));
                sim.fault("mut-bitflip");
            }
            5 => {
                let g = sim.bytes(sim.range(1, 40) as usize);
                muts.push(format!("append {}B", g.len()));
                data.extend(g);
                sim.fault("mut-append-garbage");
            }
            6 => {
                data = sim.bytes(sim.range(0, 300) as usize);
                starts.clear();
                muts.push("replace-with-random".into());
                sim.fault("mut-random-bytes");
            }
            7 => {
                // a well-formed frame (flag 1) whose payload is a *forged container header*: the
                // fields a decompressor trusts for sizing (zstd frame content size, gzip ISIZE,
                // zlib header) say whatever the peer likes
                let declared: u64 = sim.pick(&[u64::MAX, 1 << 62, 1 << 40, 1 << 31, 0, 1]);
                let mut payload: Vec<u8> = match sim.draw(3) {
                    0 => {
                        // zstd: magic, frame header descriptor 0xE0 (8-byte content size, single segment), size
                        let mut p = vec![0x28, 0xb5, 0x2f, 0xfd, 0xe0];
                        p.extend_from_slice(&declared.to_le_bytes());
                        p
                    }
                    1 => {
                        // gzip: header, an empty stored deflate block, CRC32, ISIZE
                        let mut p = vec![0x1f, 0x8b, 0x08, 0, 0, 0, 0, 0, 0, 0x03, 0x01, 0x00, 0x00, 0xff, 0xff, 0, 0, 0, 0];
                        p.extend_from_slice(&(declared as u32).to_le_bytes());
                        p
                    }
                    _ => vec![0x78, 0x9c],
                };
                payload.extend(sim.bytes(sim.range(0, 12) as usize));
                starts.push(data.len());
                data.extend(indep::frame(1, &payload));
                muts.push(format!("forged-container-header declaring {declared}"));
                sim.fault("mut-forged-container-header");
            }
            _ => {}
        }
    }

    // ---- chunking, trailers, body error ----
    let chunks = cut_bytes(sim, &data, &starts);
    let mut evs: Vec<Ev> = chunks.into_iter().map(Ev::Data).collect();
    // A conformant HTTP body ends after its trailers frame, so an injected error or stall
    // replaces the tail of the script (it is never placed after trailers).
    let mut delivered_bytes = data.len();
    let mut body_error = false;
    if sim.chance(1, 5) {
        let pos = sim.range(0, evs.len() as u64) as usize;
        let kind = ErrKind::draw(sim);
        evs.truncate(pos);
        delivered_bytes = evs.iter().map(|e| if let Ev::Data(b) = e { b.len() } else { 0 }).sum();
        evs.push(Ev::Err(kind));
        body_error = true;
    } else if sim.chance(1, 20) {
        let pos = sim.range(0, evs.len() as u64) as usize;
        evs.truncate(pos);
        delivered_bytes = evs.iter().map(|e| if let Ev::Data(b) = e { b.len() } else { 0 }).sum();
        evs.push(Ev::Stall);
        sim.fault("peer-stalls-forever");
    } else {
        match sim.weighted(&[4, 3, 3]) {
            1 => evs.push(Ev::Trailers(status_trailers(0, ""))),
            2 => evs.push(Ev::Trailers(status_trailers(sim.range(1, 16) as u32, "boom"))),
            _ => {}
        }
    }
    let extra = sim.range(2, 6) as u32;
    let lim = limit.unwrap_or(4 * 1024 * 1024);
    let refr = reference(&data[..delivered_bytes.min(data.len())], enc, lim, prost);
    if refr.defect.is_some() || body_error {
        sim.nontrivial();
    }
    sim.sample(|| {
        format!(
            "dir={direction} enc={enc:?} limit={limit:?} prost={prost} msgs={sizes:?} mutations={muts:?} frames={} pending%={pending_pct} body_error={body_error} reference_defect={:?}",
            evs.len(),
            refr.defect
        )
    });
    sim.ev(|| format!("config: dir={direction} enc={enc:?} limit={limit:?} prost={prost} dec_buffer={dec_buffer} msgs={sizes:?} mutations={muts:?} reference: {} items, defect {:?}", refr.items.len(), refr.defect));

    // a hostile peer may also announce any body length up front (content-length)
    let hint = match sim.weighted(&[4, 2, 1, 1]) {
        0 => crate::seams::SizeHint::Unknown,
        1 => crate::seams::SizeHint::ExactTrue,
        2 => crate::seams::SizeHint::Announced(u64::MAX),
        _ => crate::seams::SizeHint::Announced(sim.pick(&[0u64, 1, 1 << 31, (1 << 32) + 5])),
    };
    if matches!(hint, crate::seams::SizeHint::Announced(_)) {
        sim.fault("body-announces-arbitrary-length");
    }
    let body = Segmented::new(SimBody::new(sim, "in", evs, pending_pct, sim.chance(1, 4)).with_size_hint(hint));
    let tenc = enc.map(|e| e.tonic());
    let status = match direction {
        2 => StatusCode::from_u16(sim.pick(&[400u16, 401, 403, 404, 429, 500, 502, 503, 504, 204, 302])).unwrap(),
        _ => StatusCode::OK,
    };

    let observed: Vec<SEv> = if prost {
        let dec = ProstCodec::<Msg, Msg>::raw_decoder(BufferSettings::new(dec_buffer, 32 * 1024));
        let mut s = match direction {
            0 => Streaming::new_request(dec, body, tenc, limit),
            3 => Streaming::new_empty(dec, body),
            _ => Streaming::new_response(dec, body, status, tenc, limit),
        };
        drain_stream(sim, &mut s, &|m: &Msg| m.encode_to_vec(), extra, data.len() / 5 + 16)
    } else {
        crate::rawcodec::draw_styles(sim);
        let mut codec = RawCodec(RawCfg { dec_buffer, ..RawCfg::default() });
        let dec = codec.decoder();
        let mut s = match direction {
            0 => Streaming::new_request(dec, body, tenc, limit),
            3 => Streaming::new_empty(dec, body),
            _ => Streaming::new_response(dec, body, status, tenc, limit),
        };
        drain_stream(sim, &mut s, &|m: &RawMsg| m.0.to_vec(), extra, data.len() / 5 + 16)
    };

    // ---- oracle ----
    // (1) terminal behaviour
    let suffix = if body_error {
        "-after-body-error"
    } else if matches!(refr.defect.as_deref(), Some(d) if d.starts_with("truncated")) {
        "-after-eof"
    } else if refr.defect.is_some() {
        "-after-decode-error"
    } else {
        ""
    };
    for (class, detail) in check_terminal(&observed, suffix) {
        sim.violation(&class, detail);
    }
    // (2) every item yielded before the first terminal event is a correctly framed message of
    //     the input, in order
    let mut i = 0usize;
    for e in &observed {
        match e {
            SEv::Item(b) => {
                match refr.items.get(i) {
                    Some(RefItem::Known(x)) if x == b => {}
                    Some(RefItem::Unjudged) => {}
                    Some(RefItem::Known(x)) => {
                        sim.violation(
                            "yielded-item-differs-from-input",
                            format!("item {i}: got {}B {}, input frame holds {}B {}; history {}", b.len(), crate::seams::hex_head(b), x.len(), crate::seams::hex_head(x), show(&observed)),
                        );
                        break;
                    }
                    None => {
                        sim.violation(
                            "yielded-item-not-in-input",
                            format!("item {i} ({}B) but the input holds only {} well-framed messages before {:?}; history {}", b.len(), refr.items.len(), refr.defect, show(&observed)),
                        );
                        break;
                    }
                }
                i += 1;
            }
            _ => break,
        }
    }
    let _ = Bytes::new();
}
