//! C02 — the client observes exactly the messages, metadata and status the server produced (and
//! the handler exactly what the caller sent), for all four call shapes.  The call driver and the
//! oracle are transport-independent: engine F runs them over the loopback, engine N over real
//! hyper/h2 on the simulated network.  Also feeds C03 (wire monitor), C08 (metadata) and the
//! sampled round-trip clause of C04.

use crate::c03;
use crate::gen::{self, apply_md, check_md_received, gen_md, gen_status, MdEntry, StatusSpec, CANARY};
use crate::handlers::{CallLog, Handler, Script, SimMsg};
use crate::indep::{self, Enc};
use crate::loopback::{CallRecord, Loopback};
use crate::nopkg::NpMsg;
use crate::pb::Msg;
use crate::rawcodec::RawMsg;
use crate::seams::MsgSource;
use http::HeaderMap;
use simcore::{drive, Drive, Sim};
use tonic::metadata::MetadataMap;
use tonic::{Request, Response, Status, Streaming};

pub const SHAPES: [&str; 4] = ["Unary", "ClientStream", "ServerStream", "Bidi"];

#[derive(Clone, Debug)]
pub struct CallPlan {
    pub id: u64,
    pub shape: usize,
    pub req_md: Vec<MdEntry>,
    pub req_msgs: Vec<Vec<u8>>,
    pub tag: u64,
    pub script: Script,
    pub req_src_pending: u64,
    pub extra_polls: u32,
    /// streaming responses: after this many items the caller asks for `Streaming::trailers()`
    /// instead of the next message (which drains the rest of the stream)
    pub early_trailers_after: Option<usize>,
    /// bidirectional calls: a ping-pong conversation — the caller sends its k-th request only
    /// after it has seen k responses (as many as the handler will produce); the handler (read mode
    /// 2) answers after each request it reads
    pub ping_pong: bool,
}

#[derive(Debug, Default)]
pub struct Observed {
    pub call_err: Option<Status>,
    pub head_md: Option<MetadataMap>,
    pub unary_msg: Option<Vec<u8>>,
    /// streaming: items then the terminal event(s)
    pub items: Vec<Vec<u8>>,
    pub stream_err: Option<Status>,
    pub clean_end: bool,
    pub after_terminal: Vec<String>,
    pub trailers: Option<Result<Option<MetadataMap>, String>>,
    /// outcome of an early `trailers()` call (see `CallPlan::early_trailers_after`)
    pub early_trailers: Option<Result<Option<MetadataMap>, Status>>,
}

#[allow(async_fn_in_trait)]
pub trait ClientOps<M: SimMsg> {
    async fn unary(&mut self, r: Request<M>) -> Result<Response<M>, Status>;
    async fn client_stream(&mut self, r: Request<MsgSource<M>>) -> Result<Response<M>, Status>;
    async fn server_stream(&mut self, r: Request<M>) -> Result<Response<Streaming<M>>, Status>;
    async fn bidi(&mut self, r: Request<MsgSource<M>>) -> Result<Response<Streaming<M>>, Status>;
}

macro_rules! impl_ops4 {
    ($client:ty, $m:ty) => {
        impl<T> ClientOps<$m> for $client
        where
            T: tonic::client::GrpcService<tonic::body::Body>,
            T::Error: Into<Box<dyn std::error::Error + Send + Sync>>,
            T::ResponseBody: http_body::Body<Data = bytes::Bytes> + Send + 'static,
            <T::ResponseBody as http_body::Body>::Error: Into<Box<dyn std::error::Error + Send + Sync>> + Send,
        {
            async fn unary(&mut self, r: Request<$m>) -> Result<Response<$m>, Status> {
                <$client>::unary(self, r).await
            }
            async fn client_stream(&mut self, r: Request<MsgSource<$m>>) -> Result<Response<$m>, Status> {
                <$client>::client_stream(self, r).await
            }
            async fn server_stream(&mut self, r: Request<$m>) -> Result<Response<Streaming<$m>>, Status> {
                <$client>::server_stream(self, r).await
            }
            async fn bidi(&mut self, r: Request<MsgSource<$m>>) -> Result<Response<Streaming<$m>>, Status> {
                <$client>::bidi(self, r).await
            }
        }
    };
}

impl_ops4!(crate::rawsvc::raw_client::RawClient<T>, RawMsg);
impl_ops4!(crate::pb::echo_client::EchoClient<T>, Msg);

impl<T> ClientOps<NpMsg> for crate::nopkg::bare_client::BareClient<T>
where
    T: tonic::client::GrpcService<tonic::body::Body>,
    T::Error: Into<Box<dyn std::error::Error + Send + Sync>>,
    T::ResponseBody: http_body::Body<Data = bytes::Bytes> + Send + 'static,
    <T::ResponseBody as http_body::Body>::Error: Into<Box<dyn std::error::Error + Send + Sync>> + Send,
{
    async fn unary(&mut self, r: Request<NpMsg>) -> Result<Response<NpMsg>, Status> {
        crate::nopkg::bare_client::BareClient::unary(self, r).await
    }
    async fn client_stream(&mut self, _r: Request<MsgSource<NpMsg>>) -> Result<Response<NpMsg>, Status> {
        unreachable!("Bare has no client-streaming method")
    }
    async fn server_stream(&mut self, r: Request<NpMsg>) -> Result<Response<Streaming<NpMsg>>, Status> {
        crate::nopkg::bare_client::BareClient::server_stream(self, r).await
    }
    async fn bidi(&mut self, _r: Request<MsgSource<NpMsg>>) -> Result<Response<Streaming<NpMsg>>, Status> {
        unreachable!("Bare has no bidi method")
    }
}

fn mk_request<T>(plan: &CallPlan, body: T) -> Request<T> {
    let mut r = Request::new(body);
    apply_md(r.metadata_mut(), &plan.req_md);
    r.metadata_mut().insert("sim-call", plan.id.to_string().parse().unwrap());
    r
}

async fn drain<M: SimMsg>(sim: &Sim, mut s: Streaming<M>, extra: u32, early: Option<usize>, gate: Option<crate::seams::Gate>, obs: &mut Observed) {
    let mut terminal = false;
    let mut n_after = 0;
    loop {
        if !terminal && early == Some(obs.items.len()) && obs.early_trailers.is_none() {
            // the caller is no longer interested in messages: trailers() drains the stream
            let r = s.trailers().await;
            sim.ev(|| format!("client: trailers() after {} items -> {:?}", obs.items.len(), r.as_ref().map(|o| o.is_some()).map_err(|e| e.code())));
            terminal = true;
            match &r {
                Ok(_) => obs.clean_end = true,
                Err(e) => obs.stream_err = Some(e.clone()),
            }
            obs.early_trailers = Some(r);
        }
        match s.message().await {
            Ok(Some(m)) => {
                if terminal {
                    obs.after_terminal.push("item".into());
                } else {
                    let c = m.canon();
                    sim.ev(|| format!("client: item {}B", c.len()));
                    obs.items.push(c);
                    if let Some(g) = &gate {
                        g.bump();
                    }
                }
            }
            Ok(None) => {
                if terminal {
                    obs.after_terminal.push("end".into());
                } else {
                    sim.ev(|| "client: end of stream".into());
                    obs.clean_end = true;
                    terminal = true;
                    // trailers right after a clean end
                    obs.trailers = Some(s.trailers().await.map_err(|e| format!("{:?}: {}", e.code(), e.message())));
                }
            }
            Err(e) => {
                if terminal {
                    obs.after_terminal.push(format!("err {:?}", e.code()));
                } else {
                    sim.ev(|| format!("client: stream error {:?} {:?}", e.code(), e.message()));
                    obs.stream_err = Some(e);
                    terminal = true;
                }
            }
        }
        if terminal {
            n_after += 1;
            if n_after > extra {
                break;
            }
        }
        if obs.items.len() > 10_000 {
            break;
        }
    }
}

pub async fn perform<M: SimMsg, C: ClientOps<M>>(sim: &Sim, client: &mut C, plan: &CallPlan) -> Observed {
    let mut obs = Observed::default();
    let first = M::from_payload(plan.tag, plan.req_msgs.first().map(|v| &v[..]).unwrap_or(&[]));
    let all = |_: ()| plan.req_msgs.iter().map(|b| M::from_payload(plan.tag, b)).collect::<Vec<M>>();
    let gate = if plan.ping_pong && plan.shape == 3 { Some(crate::seams::Gate::new(plan.script.msgs.len())) } else { None };
    if gate.is_some() {
        sim.probe("ping-pong-conversation");
    }
    sim.ev(|| format!("client: call {} {} req_msgs={:?} md={}", plan.id, SHAPES[plan.shape], plan.req_msgs.iter().map(|m| m.len()).collect::<Vec<_>>(), gen::md_summary(&plan.req_md)));
    match plan.shape {
        0 => match client.unary(mk_request(plan, first)).await {
            Ok(r) => {
                obs.head_md = Some(r.metadata().clone());
                obs.unary_msg = Some(r.into_inner().canon());
            }
            Err(e) => obs.call_err = Some(e),
        },
        1 => match client.client_stream(mk_request(plan, MsgSource::new(sim, all(()), plan.req_src_pending))).await {
            Ok(r) => {
                obs.head_md = Some(r.metadata().clone());
                obs.unary_msg = Some(r.into_inner().canon());
            }
            Err(e) => obs.call_err = Some(e),
        },
        2 => match client.server_stream(mk_request(plan, first)).await {
            Ok(r) => {
                obs.head_md = Some(r.metadata().clone());
                drain(sim, r.into_inner(), plan.extra_polls, plan.early_trailers_after, None, &mut obs).await;
            }
            Err(e) => obs.call_err = Some(e),
        },
        _ => match client.bidi(mk_request(plan, MsgSource::new(sim, all(()), plan.req_src_pending).with_gate(gate.clone()))).await {
            Ok(r) => {
                obs.head_md = Some(r.metadata().clone());
                drain(sim, r.into_inner(), plan.extra_polls, plan.early_trailers_after, gate.clone(), &mut obs).await;
            }
            Err(e) => obs.call_err = Some(e),
        },
    }
    if let Some(e) = &obs.call_err {
        sim.ev(|| format!("client: call failed {:?} {:?} source={:?}", e.code(), e.message(), std::error::Error::source(e).map(|s| format!("{s:?}"))));
    }
    obs
}

fn v2(sim: &Sim, class: &str, detail: String) {
    sim.violation(&format!("C02/{class}"), detail);
}

fn status_check(sim: &Sim, who: &str, want: &StatusSpec, got: &Status) {
    if got.code() != want.code {
        v2(sim, "status-code-differs", format!("{who}: handler ended with {:?}, caller sees {:?} ({:?})", want.code, got.code(), got.message()));
        sim.violation("C04/status-roundtrip-code-differs", format!("{who}: written {:?}, read back {:?}", want.code, got.code()));
    }
    if got.message() != want.msg {
        v2(sim, "status-message-differs", format!("{who}: handler message {:?}, caller sees {:?}", want.msg, got.message()));
        sim.violation("C04/status-roundtrip-message-differs", format!("{who}: written {:?}, read back {:?}", want.msg, got.message()));
    }
    if got.details() != &want.details[..] {
        v2(sim, "status-details-differ", format!("{who}: handler details {}B, caller sees {}B", want.details.len(), got.details().len()));
        sim.violation("C04/status-roundtrip-details-differ", format!("{who}: written {}B, read back {}B", want.details.len(), got.details().len()));
    }
    check_md_received(sim, who, &want.md, got.metadata());
    if let Some(d) = gen::md_mismatch(&want.md, got.metadata()) {
        v2(sim, "status-metadata-differs", format!("{who}: metadata the handler attached to its error status did not all reach the caller: {d}"));
        sim.violation("C04/status-roundtrip-metadata-differs", format!("{who}: status metadata written and read back differs: {d}"));
    }
    // the three status fields are the status itself: none of them is left behind as "custom metadata"
    let h = got.metadata().clone().into_headers();
    for k in ["grpc-status", "grpc-message", "grpc-status-details-bin"] {
        if h.contains_key(k) {
            sim.violation("C04/status-field-left-in-metadata", format!("{who}: the status read back carries {k:?} among its custom metadata"));
        }
    }
}

/// Fault-free oracle: identity channel.
pub fn judge<M: SimMsg>(sim: &Sim, plan: &CallPlan, obs: &Observed, log: Option<&CallLog>) {
    let who = format!("call {} {}", plan.id, SHAPES[plan.shape]);
    let s = &plan.script;
    let want_msgs: Vec<Vec<u8>> = s.msgs.iter().map(|b| M::from_payload(s.tag, b).canon()).collect();
    // ---- handler side: exactly what the caller sent ----
    match log {
        None => v2(sim, "handler-not-invoked", format!("{who}: the handler never saw the call")),
        Some(l) => {
            let sent: Vec<Vec<u8>> = if plan.shape == 0 || plan.shape == 2 {
                vec![M::from_payload(plan.tag, plan.req_msgs.first().map(|v| &v[..]).unwrap_or(&[])).canon()]
            } else {
                plan.req_msgs.iter().map(|b| M::from_payload(plan.tag, b).canon()).collect()
            };
            let reads_all = plan.shape == 0 || plan.shape == 2 || (s.read_mode == 0 && !(plan.shape == 3 && s.fail_at_call && s.end.is_some())) || (s.read_mode == 2 && plan.shape == 3 && s.end.is_none() && s.ok_trailing_md.is_empty());
            if let Some(e) = &l.req_error {
                v2(sim, "request-stream-error-at-handler", format!("{who}: handler's request stream failed: {e}"));
            } else if reads_all {
                if l.msgs != sent {
                    v2(sim, "request-messages-differ", format!("{who}: caller sent {:?}, handler received {:?}", sent.iter().map(|m| m.len()).collect::<Vec<_>>(), l.msgs.iter().map(|m| m.len()).collect::<Vec<_>>()));
                }
            } else if !l.msgs.iter().zip(sent.iter()).all(|(a, b)| a == b) || l.msgs.len() > sent.len() {
                v2(sim, "request-messages-differ", format!("{who}: handler received messages that are not a prefix of what the caller sent"));
            }
            if let Some(md) = &l.md {
                check_md_received(sim, &format!("{who} (request metadata at handler)"), &plan.req_md, md);
                if let Some(d) = gen::md_mismatch(&plan.req_md, md) {
                    v2(sim, "request-metadata-differs", format!("{who}: request metadata at the handler: {d}"));
                }
            }
        }
    }
    // ---- caller side ----
    let unary_like = plan.shape == 0 || plan.shape == 1;
    if unary_like {
        match (&s.end, &obs.call_err, &obs.unary_msg) {
            (None, None, Some(m)) => {
                if Some(m) != want_msgs.first() {
                    v2(sim, "response-message-differs", format!("{who}: handler produced {:?}B, caller got {}B", want_msgs.first().map(|m| m.len()), m.len()));
                }
                if let Some(md) = &obs.head_md {
                    check_md_received(sim, &format!("{who} (response metadata at caller)"), &s.initial_md, md);
                    if let Some(d) = gen::md_mismatch(&s.initial_md, md) {
                        v2(sim, "response-metadata-differs", format!("{who}: response metadata at the caller: {d}"));
                    }
                }
            }
            (None, Some(e), _) => v2(sim, "success-reported-as-error", format!("{who}: handler succeeded, caller sees {:?} {:?}", e.code(), e.message())),
            (Some(w), Some(e), _) => status_check(sim, &who, w, e),
            (Some(w), None, _) => v2(sim, "error-reported-as-success", format!("{who}: handler ended with {}, caller sees success", w.summary())),
            (None, None, None) => v2(sim, "no-outcome", format!("{who}: neither message nor error")),
        }
        return;
    }
    // streaming responses
    let fails_at_call = s.fail_at_call && s.end.is_some();
    if let Some(e) = &obs.call_err {
        match &s.end {
            Some(w) if fails_at_call || s.msgs.is_empty() => status_check(sim, &who, w, e),
            Some(w) => v2(sim, "messages-lost-before-error", format!("{who}: handler produced {} messages then {}, caller got the error at call time: {:?}", s.msgs.len(), w.summary(), e.code())),
            None => v2(sim, "success-reported-as-error", format!("{who}: handler succeeded, caller's call failed with {:?} {:?}", e.code(), e.message())),
        }
        return;
    }
    if fails_at_call {
        // the handler returned the error instead of a stream; the caller may see it at call time
        // (judged above) or as the first stream event
        match (&obs.stream_err, obs.items.len()) {
            (Some(e), 0) => status_check(sim, &who, s.end.as_ref().unwrap(), e),
            _ => v2(sim, "error-reported-as-success", format!("{who}: handler refused the call with {}, caller saw {} items, clean_end={}", s.end.as_ref().unwrap().summary(), obs.items.len(), obs.clean_end)),
        }
        return;
    }
    if let Some(md) = &obs.head_md {
        check_md_received(sim, &format!("{who} (response metadata at caller)"), &s.initial_md, md);
        if let Some(d) = gen::md_mismatch(&s.initial_md, md) {
            v2(sim, "response-metadata-differs", format!("{who}: response metadata at the caller: {d}"));
        }
    }
    if let Some(early) = &obs.early_trailers {
        // the caller stopped after j items and asked for the trailers: the items are the first j,
        // the outcome is the handler's (an error status, or OK with its trailing metadata)
        sim.probe("trailers-requested-before-the-end");
        let j = plan.early_trailers_after.unwrap_or(0);
        if obs.items[..] != want_msgs[..j.min(want_msgs.len())] {
            v2(sim, "response-messages-differ", format!("{who}: the first {j} items differ from what the handler produced"));
        }
        match (&s.end, early) {
            (Some(w), Err(e)) => status_check(sim, &who, w, e),
            (Some(w), Ok(_)) => v2(sim, "error-reported-as-success", format!("{who}: handler ended with {}, trailers() after {j} items returned Ok", w.summary())),
            (None, Err(e)) => v2(sim, "success-reported-as-error", format!("{who}: handler succeeded, trailers() after {j} items failed with {:?} {:?}", e.code(), e.message())),
            (None, Ok(t)) => {
                if !s.ok_trailing_md.is_empty() {
                    match t {
                        Some(t) => {
                            if let Some(d) = gen::md_mismatch(&s.ok_trailing_md, t) {
                                v2(sim, "trailing-metadata-differs", format!("{who}: trailing metadata returned by an early trailers(): {d}"));
                            }
                        }
                        None => v2(sim, "trailing-metadata-lost", format!("{who}: the handler ended in OK with trailing metadata {}, an early trailers() returned None", gen::md_summary(&s.ok_trailing_md))),
                    }
                }
            }
        }
        for a in &obs.after_terminal {
            if a != "end" {
                v2(sim, "event-after-terminal", format!("{who}: after trailers() the stream produced {a}"));
            }
        }
        return;
    }
    if obs.items != want_msgs {
        v2(
            sim,
            "response-messages-differ",
            format!("{who}: handler produced {:?}, caller got {:?} (stream_err {:?}, clean_end {})", want_msgs.iter().map(|m| m.len()).collect::<Vec<_>>(), obs.items.iter().map(|m| m.len()).collect::<Vec<_>>(), obs.stream_err.as_ref().map(|e| e.code()), obs.clean_end),
        );
    }
    match (&s.end, &obs.stream_err, obs.clean_end) {
        (None, None, true) => {}
        (None, Some(e), _) => v2(sim, "success-reported-as-error", format!("{who}: handler succeeded, stream ended with {:?} {:?}", e.code(), e.message())),
        (Some(w), Some(e), _) => status_check(sim, &who, w, e),
        (Some(w), None, true) => v2(sim, "error-reported-as-success", format!("{who}: handler ended with {}, caller saw a clean end of stream", w.summary())),
        (_, None, false) => v2(sim, "no-outcome", format!("{who}: stream neither ended nor failed")),
    }
    for a in &obs.after_terminal {
        if a != "end" {
            v2(sim, "event-after-terminal", format!("{who}: after the terminal event the stream produced {a}"));
        }
    }
    if let Some(Err(e)) = &obs.trailers {
        v2(sim, "trailers-call-failed", format!("{who}: trailers() failed after a clean end: {e}"));
    }
    if s.end.is_none() && !s.ok_trailing_md.is_empty() && obs.clean_end {
        match &obs.trailers {
            Some(Ok(Some(t))) => {
                check_md_received(sim, &format!("{who} (trailing metadata of a successful stream)"), &s.ok_trailing_md, t);
                if let Some(d) = gen::md_mismatch(&s.ok_trailing_md, t) {
                    v2(sim, "trailing-metadata-differs", format!("{who}: trailing metadata of a stream that ended in OK: {d}"));
                }
            }
            other => v2(sim, "trailing-metadata-lost", format!("{who}: the handler ended its stream in OK with trailing metadata {}, trailers() returned {:?}", gen::md_summary(&s.ok_trailing_md), other.as_ref().map(|r| r.as_ref().map(|o| o.is_some())))),
        }
    }
}

fn header_enc(h: &HeaderMap) -> Result<Option<Enc>, String> {
    match h.get("grpc-encoding") {
        None => Ok(None),
        Some(v) => match v.to_str().ok() {
            Some("identity") => Ok(None),
            Some(s) => Enc::from_name(s).map(Some).ok_or_else(|| format!("unknown grpc-encoding {s:?}")),
            None => Err("non-ASCII grpc-encoding".into()),
        },
    }
}

fn scan_canary(sim: &Sim, who: &str, h: &HeaderMap) {
    for (k, v) in h.iter() {
        if v.as_bytes().windows(CANARY.len()).any(|w| w == CANARY.as_bytes()) {
            sim.violation("C08/reserved-header-emitted-from-user-metadata", format!("{who}: wire header {:?} carries user value {:?}", k.as_str(), String::from_utf8_lossy(v.as_bytes())));
        }
    }
}

fn check_bin_on_wire(sim: &Sim, who: &str, entries: &[MdEntry], h: &HeaderMap) {
    for e in entries.iter().filter(|e| e.bin && e.expected()) {
        let vals: Vec<&http::HeaderValue> = h.get_all(e.key.as_str()).iter().collect();
        if vals.is_empty() {
            continue; // presence is judged on the receiving side
        }
        let decoded: Vec<Result<Vec<u8>, String>> = vals.iter().map(|v| indep::b64_decode(v.as_bytes())).collect();
        if decoded.iter().any(|d| d.is_err()) {
            sim.violation("C08/binary-value-not-base64-on-wire", format!("{who}: key {:?} wire values {:?}", e.key, vals));
        } else if !decoded.iter().any(|d| d.as_ref().ok() == Some(&e.val)) {
            sim.violation("C08/binary-value-wrong-on-wire", format!("{who}: key {:?}: no wire value decodes to the {}B sent", e.key, e.val.len()));
        }
    }
}

/// Wire monitor over one recorded call (C03 + wire clauses of C08).
pub fn judge_wire<M: SimMsg>(sim: &Sim, plan: &CallPlan, path: &str, rec: &CallRecord, obs: &Observed, drained_all: bool) {
    let who = format!("call {} {}", plan.id, SHAPES[plan.shape]);
    let s = &plan.script;
    if let Some((method, uri, version, h)) = &rec.req_head {
        if method != http::Method::POST {
            sim.violation("C03/request-not-post", format!("{who}: method {method}"));
        }
        if *version != http::Version::HTTP_2 {
            sim.violation("C03/request-not-http2", format!("{who}: version {version:?}"));
        }
        if uri.path() != path {
            sim.violation("C03/request-path-wrong", format!("{who}: path {:?}, expected {path:?}", uri.path()));
        }
        let cts: Vec<_> = h.get_all("content-type").iter().collect();
        if cts.len() != 1 || cts[0].as_bytes() != b"application/grpc" {
            sim.violation("C03/request-content-type-wrong", format!("{who}: content-type {cts:?}"));
        }
        let tes: Vec<_> = h.get_all("te").iter().collect();
        if tes.len() != 1 || tes[0].as_bytes() != b"trailers" {
            sim.violation("C03/request-te-wrong", format!("{who}: te {tes:?}"));
        }
        scan_canary(sim, &format!("{who} request headers"), h);
        check_bin_on_wire(sim, &format!("{who} request headers"), &plan.req_md, h);
        match header_enc(h) {
            Ok(enc) => {
                let sent: Vec<Vec<u8>> = if plan.shape == 0 || plan.shape == 2 {
                    vec![M::from_payload(plan.tag, plan.req_msgs.first().map(|v| &v[..]).unwrap_or(&[])).canon()]
                } else {
                    plan.req_msgs.iter().map(|b| M::from_payload(plan.tag, b).canon()).collect()
                };
                c03::check_message_bytes(sim, &format!("{who} request body"), &rec.req.data, enc, &sent, rec.req.ended);
            }
            Err(e) => sim.violation("C03/request-encoding-header-wrong", format!("{who}: {e}")),
        }
        if !rec.req.trailers.is_empty() {
            sim.violation("C03/request-body-has-trailers", format!("{who}: request body carries trailers"));
        }
    }
    if let Some((status, _v, h)) = &rec.resp_head {
        if *status != http::StatusCode::OK {
            sim.violation("C03/response-status-not-200", format!("{who}: HTTP status {status}"));
        }
        let cts: Vec<_> = h.get_all("content-type").iter().collect();
        if cts.len() != 1 || cts[0].as_bytes() != b"application/grpc" {
            sim.violation("C03/response-content-type-wrong", format!("{who}: content-type {cts:?}"));
        }
        scan_canary(sim, &format!("{who} response headers"), h);
        let hs = c03::count_status(h);
        if hs == 0 {
            // (a trailers-only response carries the status metadata, not the handler's initial metadata)
            check_bin_on_wire(sim, &format!("{who} response headers"), &s.initial_md, h);
        }
        let mut n_status = hs;
        for t in &rec.resp.trailers {
            n_status += c03::count_status(t);
            scan_canary(sim, &format!("{who} trailers"), t);
            if let Some(e) = &s.end {
                check_bin_on_wire(sim, &format!("{who} trailers"), &e.md, t);
            }
        }
        if hs > 0 {
            if let Some(e) = &s.end {
                check_bin_on_wire(sim, &format!("{who} trailers-only headers"), &e.md, h);
            }
            if rec.resp.data_frames > 0 || !rec.resp.trailers.is_empty() {
                sim.violation("C03/status-in-headers-with-body", format!("{who}: grpc-status in headers but the body carries {} data frames / {} trailers blocks", rec.resp.data_frames, rec.resp.trailers.len()));
            }
        }
        if rec.resp.trailers.len() > 1 {
            sim.violation("C03/more-than-one-trailers-block", format!("{who}: {} trailers blocks", rec.resp.trailers.len()));
        }
        if rec.resp.frames_after_trailers > 0 {
            sim.violation("C03/frame-after-trailers", format!("{who}: {} frames after the trailers block", rec.resp.frames_after_trailers));
        }
        if let Some(e) = &rec.resp.error {
            sim.violation("C03/server-body-error-instead-of-status", format!("{who}: response body failed: {e}"));
        }
        if drained_all && rec.resp.ended && n_status != 1 {
            sim.violation("C03/not-exactly-one-grpc-status", format!("{who}: {n_status} grpc-status entries on the wire (headers {hs}, trailers blocks {})", rec.resp.trailers.len()));
        }
        match header_enc(h) {
            Ok(enc) => {
                let want: Vec<Vec<u8>> = if s.fail_at_call && s.end.is_some() {
                    vec![]
                } else if plan.shape <= 1 {
                    if s.end.is_some() { vec![] } else { s.msgs.iter().take(1).map(|b| M::from_payload(s.tag, b).canon()).collect() }
                } else {
                    s.msgs.iter().map(|b| M::from_payload(s.tag, b).canon()).collect()
                };
                let want = if plan.shape <= 1 && s.end.is_none() && want.is_empty() { vec![M::from_payload(s.tag, &[]).canon()] } else { want };
                c03::check_message_bytes(sim, &format!("{who} response body"), &rec.resp.data, enc, &want, drained_all && rec.resp.ended);
            }
            Err(e) => sim.violation("C03/response-encoding-header-wrong", format!("{who}: {e}")),
        }
    }
    let _ = obs;
}

// ------------------------------------------------------------------------------------------------
// generation

pub fn gen_plan(sim: &Sim, id: u64, shape: usize, max_msg: usize) -> CallPlan {
    let nreq = if shape == 1 || shape == 3 { sim.range(0, 5) } else { 1 };
    let sizes = crate::c07::gen_msg_sizes(sim, nreq, max_msg);
    let req_msgs: Vec<Vec<u8>> = sizes.iter().map(|s| sim.bytes(*s)).collect();
    let nresp = if shape >= 2 { sim.range(0, 6) } else { 1 };
    let rsizes = crate::c07::gen_msg_sizes(sim, nresp, max_msg);
    let msgs: Vec<Vec<u8>> = rsizes.iter().map(|s| sim.bytes(*s)).collect();
    let end = if sim.chance(2, 5) { Some(gen_status(sim, true)) } else { None };
    let fail_at_call = shape >= 2 && end.is_some() && sim.chance(1, 3);
    if end.is_some() {
        sim.nontrivial();
        if shape >= 2 && !fail_at_call && msgs.is_empty() {
            sim.probe("error-before-first-message-in-stream");
        }
        if shape >= 2 && !msgs.is_empty() && !fail_at_call {
            sim.probe("error-after-messages");
        }
        if fail_at_call || shape <= 1 {
            sim.probe("trailers-only-response");
        }
    }
    let ok_trailing_md = if shape >= 2 && end.is_none() && sim.chance(1, 4) { gen_md(sim, 3, true) } else { vec![] };
    if !ok_trailing_md.is_empty() {
        sim.probe("ok-with-trailing-metadata");
    }
    let mut plan = CallPlan {
        id,
        shape,
        req_md: gen_md(sim, 5, true),
        req_msgs,
        tag: sim.content_seed(),
        script: Script {
            initial_md: if sim.chance(1, 2) { gen_md(sim, 4, true) } else { vec![] },
            msgs,
            tag: sim.content_seed(),
            end,
            fail_at_call,
            src_pending: sim.pick(&[0u64, 0, 20, 70]),
            disable_compression: shape <= 1 && sim.chance(1, 5),
            read_mode: if shape == 1 { sim.pick(&[0u8, 0, 0, 1]) } else if shape == 3 { sim.pick(&[0u8, 1, 2]) } else { 0 },
            latency_us: 0,
            gap_us: 0,
            ok_trailing_md: vec![],
        },
        req_src_pending: sim.pick(&[0u64, 0, 20, 70]),
        extra_polls: sim.range(0, 2) as u32,
        early_trailers_after: None,
        ping_pong: false,
    };
    if shape >= 2 && !plan.script.fail_at_call && sim.chance(1, 6) {
        plan.early_trailers_after = Some(sim.range(0, plan.script.msgs.len() as u64) as usize);
    }
    if shape == 3 && plan.script.read_mode == 2 && !plan.script.fail_at_call && plan.early_trailers_after.is_none() && sim.chance(1, 2) {
        plan.ping_pong = true;
    }
    plan.script.ok_trailing_md = ok_trailing_md;
    plan
}

#[derive(Clone, Debug)]
pub struct CompCfg {
    pub server_accept: Vec<Enc>,
    pub server_send: Vec<Enc>,
    pub client_send: Option<Enc>,
    pub client_accept: Vec<Enc>,
}

fn subset(sim: &Sim) -> Vec<Enc> {
    let mut v: Vec<Enc> = indep::ALL_ENC.iter().copied().filter(|_| sim.chance(1, 2)).collect();
    // enable order is part of the configuration
    if v.len() > 1 && sim.chance(1, 2) {
        v.reverse();
    }
    v
}

/// A configuration under which every call is expected to succeed.
pub fn gen_comp_consistent(sim: &Sim) -> CompCfg {
    if sim.chance(1, 3) {
        return CompCfg { server_accept: vec![], server_send: vec![], client_send: None, client_accept: vec![] };
    }
    let server_accept = subset(sim);
    let server_send = subset(sim);
    let client_send = if server_accept.is_empty() || sim.chance(1, 3) { None } else { Some(sim.pick(&server_accept)) };
    // accept everything the server might pick
    let mut client_accept = subset(sim);
    for e in &server_send {
        if !client_accept.contains(e) {
            client_accept.push(*e);
        }
    }
    CompCfg { server_accept, server_send, client_send, client_accept }
}

macro_rules! configure {
    ($x:expr, $cfg:expr, server) => {{
        let mut x = $x;
        for e in &$cfg.server_accept {
            x = x.accept_compressed(e.tonic());
        }
        for e in &$cfg.server_send {
            x = x.send_compressed(e.tonic());
        }
        x
    }};
    ($x:expr, $cfg:expr, client) => {{
        let mut x = $x;
        if let Some(e) = $cfg.client_send {
            x = x.send_compressed(e.tonic());
        }
        for e in &$cfg.client_accept {
            x = x.accept_compressed(e.tonic());
        }
        // an application may hand out clones of a configured client: they behave like the original
        match $crate::c02::client_clone_mode() {
            1 => x.clone(),
            2 => {
                let y = x.clone();
                drop(x);
                y.clone()
            }
            _ => x,
        }
    }};
}

thread_local! {
    static CLIENT_CLONE_MODE: std::cell::Cell<u8> = const { std::cell::Cell::new(0) };
}

pub fn client_clone_mode() -> u8 {
    CLIENT_CLONE_MODE.with(|c| c.get())
}

/// 0 = calls go through the configured client itself, 1 = through a clone, 2 = through a clone of
/// a clone (drawn per run; reset by the run prelude)
pub fn draw_client_clone_mode(sim: &Sim) {
    let m = sim.weighted(&[3, 1, 1]) as u8;
    CLIENT_CLONE_MODE.with(|c| c.set(m));
}

pub fn reset_client_clone_mode() {
    CLIENT_CLONE_MODE.with(|c| c.set(0));
}
pub(crate) use configure;

fn run_calls<M: SimMsg, C: ClientOps<M>>(sim: &Sim, client: &mut C, handler: &Handler, plans: &[CallPlan]) -> Option<Vec<Observed>> {
    let mut out = vec![];
    for p in plans {
        handler.add_script(p.id, p.script.clone());
        let fut = perform::<M, C>(sim, client, p);
        let mut fut = std::pin::pin!(fut);
        match drive(sim, fut.as_mut(), 2_000_000) {
            Drive::Done(o) => out.push(o),
            Drive::Hang { polls } => {
                v2(sim, "lost-wakeup", format!("call {} {}: Pending with no wake-up registered after {polls} polls", p.id, SHAPES[p.shape]));
                return None;
            }
            Drive::Stalled { .. } => return None,
            Drive::Budget { polls } => {
                v2(sim, "livelock", format!("call {} {}: not finished after {polls} polls", p.id, SHAPES[p.shape]));
                return None;
            }
        }
    }
    Some(out)
}

pub fn run(sim: &Sim, _idx: u64) {
    let svc = sim.weighted(&[5, 4, 1]);
    let comp = gen_comp_consistent(sim);
    crate::rawcodec::draw_styles(sim);
    draw_client_clone_mode(sim);
    crate::rawcodec::set_cfg(crate::rawcodec::RawCfg {
        enc_buffer: sim.pick(&[1usize, 64, 8192]),
        enc_yield: sim.pick(&[0usize, 64, 32768]),
        dec_buffer: sim.pick(&[1usize, 64, 8192]),
        dec_yield: 32768,
    });
    let handler = Handler::new(sim);
    let ncalls = sim.range(1, 3);
    let shapes: Vec<usize> = (0..ncalls).map(|_| if svc == 2 { sim.pick(&[0usize, 2]) } else { sim.draw(4) as usize }).collect();
    let plans: Vec<CallPlan> = shapes.iter().enumerate().map(|(i, s)| gen_plan(sim, i as u64 + 1, *s, 20_000)).collect();
    sim.sample(|| {
        format!(
            "service={} comp={:?} calls={:?}",
            ["sim.Raw", "simpb.Echo", "Bare"][svc],
            comp,
            plans.iter().map(|p| format!("{}: req {:?} -> resp {:?} end {:?} fail_at_call={} read_mode={}", SHAPES[p.shape], p.req_msgs.iter().map(|m| m.len()).collect::<Vec<_>>(), p.script.msgs.iter().map(|m| m.len()).collect::<Vec<_>>(), p.script.end.as_ref().map(|e| e.summary()), p.script.fail_at_call, p.script.read_mode)).collect::<Vec<_>>()
        )
    });
    sim.ev(|| format!("config: service={} comp={:?}", ["sim.Raw", "simpb.Echo", "Bare"][svc], comp));
    match svc {
        0 if sim.chance(1, 4) => {
            // the same calls through interceptors on both sides (`with_interceptor` /
            // `InterceptedService`): each adds metadata, nothing else may change
            fn client_interceptor(mut r: Request<()>) -> Result<Request<()>, Status> {
                r.metadata_mut().append("x-icpt", "c1".parse().unwrap());
                r.metadata_mut().append_bin("x-icpt-bin", tonic::metadata::MetadataValue::from_bytes(&[0, 255, 7]));
                Ok(r)
            }
            fn server_interceptor(mut r: Request<()>) -> Result<Request<()>, Status> {
                r.metadata_mut().append("x-srv-icpt", "s1".parse().unwrap());
                Ok(r)
            }
            sim.probe("calls-through-interceptors");
            let server = configure!(crate::rawsvc::raw_server::RawServer::new(handler.clone()), comp, server);
            let server = tonic::service::interceptor::InterceptedService::new(server, server_interceptor as fn(Request<()>) -> Result<Request<()>, Status>);
            let lb = Loopback::new(sim, crate::loopback::BoxResp(server));
            let tap = lb.tap.clone();
            let mut client = configure!(crate::rawsvc::raw_client::RawClient::with_interceptor(lb, client_interceptor as fn(Request<()>) -> Result<Request<()>, Status>), comp, client);
            if let Some(obs) = run_calls::<RawMsg, _>(sim, &mut client, &handler, &plans) {
                finish::<RawMsg>(sim, "/sim.Raw/", &plans, &obs, &handler, &tap.lock().unwrap());
                for p in &plans {
                    if let Some(md) = handler.log(p.id).and_then(|l| l.md) {
                        let ok = md.get("x-icpt").map(|v| v.as_bytes()) == Some(b"c1") && md.get_bin("x-icpt-bin").and_then(|v| v.to_bytes().ok()).as_deref() == Some(&[0u8, 255, 7][..]) && md.get("x-srv-icpt").map(|v| v.as_bytes()) == Some(b"s1");
                        if !ok {
                            v2(sim, "interceptor-metadata-lost", format!("call {}: the handler's request metadata lacks what the interceptors attached: x-icpt={:?} x-icpt-bin={:?} x-srv-icpt={:?}", p.id, md.get("x-icpt"), md.get_bin("x-icpt-bin"), md.get("x-srv-icpt")));
                        }
                    }
                }
            }
        }
        0 => {
            let server = configure!(crate::rawsvc::raw_server::RawServer::new(handler.clone()), comp, server);
            let lb = Loopback::new(sim, server);
            let tap = lb.tap.clone();
            let mut client = configure!(crate::rawsvc::raw_client::RawClient::new(lb), comp, client);
            if let Some(obs) = run_calls::<RawMsg, _>(sim, &mut client, &handler, &plans) {
                finish::<RawMsg>(sim, "/sim.Raw/", &plans, &obs, &handler, &tap.lock().unwrap());
            }
        }
        1 => {
            let server = configure!(crate::pb::echo_server::EchoServer::new(handler.clone()), comp, server);
            let lb = Loopback::new(sim, server);
            let tap = lb.tap.clone();
            let mut client = configure!(crate::pb::echo_client::EchoClient::new(lb), comp, client);
            if let Some(obs) = run_calls::<Msg, _>(sim, &mut client, &handler, &plans) {
                finish::<Msg>(sim, "/simpb.Echo/", &plans, &obs, &handler, &tap.lock().unwrap());
            }
        }
        _ => {
            let server = configure!(crate::nopkg::bare_server::BareServer::new(handler.clone()), comp, server);
            let lb = Loopback::new(sim, server);
            let tap = lb.tap.clone();
            let mut client = configure!(crate::nopkg::bare_client::BareClient::new(lb), comp, client);
            if let Some(obs) = run_calls::<NpMsg, _>(sim, &mut client, &handler, &plans) {
                finish::<NpMsg>(sim, "/Bare/", &plans, &obs, &handler, &tap.lock().unwrap());
            }
        }
    }
}

fn finish<M: SimMsg>(sim: &Sim, prefix: &str, plans: &[CallPlan], obs: &[Observed], handler: &Handler, tap: &[CallRecord]) {
    for (i, p) in plans.iter().enumerate() {
        let log = handler.log(p.id);
        judge::<M>(sim, p, &obs[i], log.as_ref());
        if let Some(rec) = tap.get(i) {
            let path = format!("{prefix}{}", SHAPES[p.shape]);
            let drained = obs[i].call_err.is_some() || obs[i].clean_end || obs[i].stream_err.is_some() || obs[i].unary_msg.is_some();
            judge_wire::<M>(sim, p, &path, rec, &obs[i], drained);
            if rec.resp.trailers.len() == 1 && rec.resp.data_frames > 0 {
                sim.probe("status-after-data-on-wire");
            }
        }
    }
    if tap.len() != plans.len() {
        v2(sim, "call-count-mismatch", format!("{} calls issued, {} requests on the wire", plans.len(), tap.len()));
    }
}
