//! C09 — faithful grpc-timeout encoding, exact parsing, shortest-deadline enforcement.
//! * F-timeout-header: what a foreign server peer receives for `Request::set_timeout(d)`.
//! * F-timeout-parse: the server's parser (hook H2) on every unit x digit-count structure and on
//!   malformed strings.
//! * N-deadline: real Server + Channel in virtual time: (caller timeout, server timeout, endpoint
//!   timeout, handler latency) grids around the boundaries.

use crate::c02::CompCfg;
use crate::handlers::{Handler, Script};
use crate::nharness::{connect, net_and_connector, run_sim, spawn_server, ClientOpts, ServerOpts};
use crate::peer::PeerSvc;
use crate::rawcodec::RawMsg;
use bytes::Bytes;
use http::{HeaderMap, HeaderValue};
use simcore::{drive, Drive, Sim};
use simnet::NetCfg;
use std::time::Duration;
use tonic::Code;

fn v9(sim: &Sim, class: &str, detail: String) {
    sim.violation(&format!("C09/{class}"), detail);
}

const UNITS: [(char, u128); 6] = [('n', 1), ('u', 1_000), ('m', 1_000_000), ('S', 1_000_000_000), ('M', 60_000_000_000), ('H', 3_600_000_000_000)];

/// independent reading of a grpc-timeout value: at most 8 digits and a unit -> nanoseconds
pub fn denote(v: &[u8]) -> Option<u128> {
    if v.len() < 2 || v.len() > 9 {
        return None;
    }
    let (digits, unit) = v.split_at(v.len() - 1);
    if !digits.iter().all(|c| c.is_ascii_digit()) {
        return None;
    }
    let n: u128 = std::str::from_utf8(digits).ok()?.parse().ok()?;
    let u = UNITS.iter().find(|(c, _)| *c as u8 == unit[0])?.1;
    Some(n * u)
}

fn gen_duration(sim: &Sim) -> Duration {
    let max_h: u128 = 99_999_999;
    let ns: u128 = match sim.weighted(&[4, 3, 2, 1]) {
        0 => {
            // unit-switch boundaries: 99_999_999 units +- 1ns, +- 1 unit
            let (_, u) = sim.pick(&UNITS);
            let base = 99_999_999u128 * u;
            let d = sim.pick(&[-1i128, 0, 1, 2]) * sim.pick(&[1i128, u as i128]);
            (base as i128 + d).max(0) as u128
        }
        1 => sim.range(0, 2_000_000_000) as u128,
        2 => sim.content_seed() as u128 * sim.pick(&[1u128, 1_000, 1_000_000, 1_000_000_000, 60_000_000_000]),
        _ => sim.pick(&[0u128, 1, 999, 1_000, 59_999_999_999, 60_000_000_000, 3_599_999_999_999, 3_600_000_000_000, max_h * 3_600_000_000_000, max_h * 3_600_000_000_000 + 3_599_999_999_999]),
    };
    let ns = ns.min(max_h * 3_600_000_000_000 + 3_599_999_999_999);
    Duration::new((ns / 1_000_000_000) as u64, (ns % 1_000_000_000) as u32)
}

pub fn run_header(sim: &Sim, _idx: u64) {
    let d = gen_duration(sim);
    let peer = PeerSvc::new(sim);
    let mut client = crate::rawsvc::raw_client::RawClient::new(peer.clone());
    let mut req = tonic::Request::new(RawMsg(Bytes::from_static(b"x")));
    req.set_timeout(d);
    let fut = client.unary(req);
    let mut fut = std::pin::pin!(fut);
    match drive(sim, fut.as_mut(), 1_000_000) {
        Drive::Done(_) => {}
        _ => return v9(sim, "lost-wakeup", "call did not complete".into()),
    }
    sim.nontrivial();
    let seen = peer.seen.lock().unwrap();
    let Some(h) = seen.first().and_then(|s| s.headers.get("grpc-timeout")).cloned() else {
        return v9(sim, "timeout-header-missing", format!("set_timeout({d:?}) but the request carries no grpc-timeout"));
    };
    sim.sample(|| format!("set_timeout({d:?}) -> grpc-timeout: {:?}", String::from_utf8_lossy(h.as_bytes())));
    sim.ev(|| format!("set_timeout({d:?}) -> grpc-timeout: {:?}", String::from_utf8_lossy(h.as_bytes())));
    let Some(t) = denote(h.as_bytes()) else {
        return v9(sim, "timeout-header-not-conformant", format!("set_timeout({d:?}) wrote {:?}: not <=8 digits + unit", String::from_utf8_lossy(h.as_bytes())));
    };
    let want = d.as_nanos();
    if t > want {
        v9(sim, "timeout-header-longer-than-requested", format!("set_timeout({d:?}) wrote {:?} = {t}ns > {want}ns", String::from_utf8_lossy(h.as_bytes())));
    }
    let unit = UNITS.iter().find(|(c, _)| *c as u8 == *h.as_bytes().last().unwrap()).unwrap().1;
    if want - t.min(want) >= unit {
        v9(sim, "timeout-header-loses-a-whole-unit", format!("set_timeout({d:?}) wrote {:?} = {t}ns; {}ns lost with unit {unit}ns", String::from_utf8_lossy(h.as_bytes()), want - t));
    }
    if h.as_bytes().last() != Some(&b'n') {
        sim.probe("unit-coarser-than-ns");
    }
}

pub const PARSE_GRID: u64 = 6 * 8 * 4;

pub fn run_parse(sim: &Sim, idx: u64) {
    let parse = |v: &[u8]| -> Result<Option<Duration>, ()> {
        let mut h = HeaderMap::new();
        h.insert("grpc-timeout", HeaderValue::from_bytes(v).map_err(|_| ())?);
        tonic::transport::verif_hooks::parse_grpc_timeout(&h)
    };
    sim.nontrivial();
    let conformant = idx < PARSE_GRID || sim.chance(1, 2);
    if conformant {
        let cell = if idx < PARSE_GRID { idx } else { sim.draw(PARSE_GRID) };
        let (uc, unit) = UNITS[(cell % 6) as usize];
        let nd = ((cell / 6) % 8 + 1) as usize;
        let digits: String = match (cell / 48) % 4 {
            0 => "0".repeat(nd),
            1 => "9".repeat(nd),
            2 => format!("{}{}", "0".repeat(nd - 1), sim.range(0, 9)),
            _ => (0..nd).map(|_| char::from(b'0' + sim.range(0, 9) as u8)).collect(),
        };
        let s = format!("{digits}{uc}");
        let want_ns: u128 = digits.parse::<u128>().unwrap() * unit;
        sim.sample(|| format!("conformant {s:?} denotes {want_ns}ns"));
        sim.ev(|| format!("conformant {s:?} denotes {want_ns}ns"));
        match parse(s.as_bytes()) {
            Ok(Some(d)) if d.as_nanos() == want_ns => {}
            other => v9(sim, "conformant-timeout-misparsed", format!("{s:?} denotes {want_ns}ns, parsed as {other:?}")),
        }
        sim.probe("parse-conformant");
    } else {
        let s: Vec<u8> = match sim.weighted(&[3, 2, 2, 2, 2, 2, 2]) {
            0 => format!("{}{}", "1".repeat(sim.range(9, 20) as usize), sim.pick(&["S", "m", "n", "H"])).into_bytes(), // too many digits
            1 => sim.pick(&["S", "H", "n", "", "u"]).as_bytes().to_vec(),                                                    // no digits
            2 => sim.pick(&["123", "1", "99999999", "0"]).as_bytes().to_vec(),                                               // no unit
            3 => format!("{}{}", sim.range(0, 9999), sim.pick(&["s", "h", "U", "N", "x", "ms", "µ", "sec", "Hh"])).into_bytes(), // wrong unit
            4 => sim.pick(&["+5S", "-5S", "+0n", " 5S", "5 S", "5S ", "1.5S", "1e3m", "0x10S", "١S", "5\tS", "5,0S"]).as_bytes().to_vec(),
            5 => {
                let mut v = sim.bytes(sim.range(1, 12) as usize);
                v.retain(|b| *b >= 0x20 && *b != 0x7f);
                v
            }
            _ => vec![b'1', 0xe9, b'S'],
        };
        if denote(&s).is_some() {
            return; // the random bytes happened to be conformant
        }
        sim.sample(|| format!("malformed {:?}", String::from_utf8_lossy(&s)));
        sim.ev(|| format!("malformed {:?}", String::from_utf8_lossy(&s)));
        match parse(&s) {
            Err(()) => {}
            Ok(None) => {}
            Ok(Some(d)) => v9(sim, "malformed-timeout-accepted", format!("{:?} is not <=8 digits + unit but is parsed as {d:?} instead of being ignored", String::from_utf8_lossy(&s))),
        }
        sim.probe("parse-malformed");
    }
}

// ------------------------------------------------------------------------------------------------

const G: Duration = Duration::from_millis(2);

/// Per-call parameters of `N-deadline`: the caller's timeout (or a malformed header), what it
/// denotes on the wire, the effective deadline D and a handler latency around it.
#[derive(Clone, Debug)]
struct DeadlineCall {
    caller: Option<Duration>,
    malformed: Option<&'static str>,
    d: Option<Duration>,
    latency: Option<Duration>,
}

fn draw_deadline_call(sim: &Sim, base_ms: u64, server: Option<Duration>, endpoint: Option<Duration>) -> DeadlineCall {
    let mk = |sim: &Sim| -> Option<Duration> { mk_timeout_for(sim, base_ms, true) };
    // the caller's header: absent, a proper timeout, or a malformed value (which must be ignored:
    // the call then behaves exactly as if no header had been sent)
    let malformed: Option<&'static str> = if sim.chance(1, 5) { Some(sim.pick(&["10x", "123456789S", "+5S", "S", "5", "1.5S", "5 S", "-1m", "u5"])) } else { None };
    let caller = if malformed.is_some() { None } else { mk(sim) };
    // what the caller's timeout denotes on the wire (finest unit that fits 8 digits, rounded down)
    let caller_wire: Option<Duration> = caller.map(|c| {
        let ns = c.as_nanos();
        let t = UNITS.iter().map(|(_, u)| (ns / u, *u)).find(|(v, _)| *v <= 99_999_999).map(|(v, u)| v * u).unwrap_or(ns);
        Duration::new((t / 1_000_000_000) as u64, (t % 1_000_000_000) as u32)
    });
    let d: Option<Duration> = [caller_wire, server, endpoint].iter().flatten().filter(|t| **t < UNBOUNDED).min().copied();
    if [caller, server, endpoint].iter().flatten().any(|t| *t >= UNBOUNDED) {
        sim.fault("practically-unbounded-timeout-configured");
    }
    // handler latency around the boundary
    let latency: Option<Duration> = match d {
        None => Some(Duration::from_millis(sim.pick(&[0u64, 1, 500]))),
        Some(d) => match sim.weighted(&[2, 2, 3, 2, 2, 1]) {
            0 => Some(d.saturating_sub(Duration::from_millis(50).min(d / 2))),
            1 => Some(d.saturating_sub(Duration::from_millis(3))),
            2 => Some((d + Duration::from_micros(sim.pick(&[0u64, 1, 999, 1000, 1001, 1999]))).saturating_sub(Duration::from_micros(sim.pick(&[0u64, 1, 999, 1000, 1001, 1999])))),
            3 => Some(d + Duration::from_millis(3)),
            4 => Some(d + Duration::from_millis(sim.pick(&[50u64, 5000]))),
            _ => None, // never answers
        },
    };
    DeadlineCall { caller, malformed, d, latency }
}

/// timeouts of this size mean "unbounded" (a configured Duration::MAX must behave like none)
const UNBOUNDED: Duration = Duration::from_secs(1_000_000_000);

fn mk_timeout(sim: &Sim, base_ms: u64) -> Option<Duration> {
    mk_timeout_for(sim, base_ms, false)
}

/// `caller`: a timeout passed to `Request::set_timeout` — the property covers durations up to the
/// largest representable one, 99999999 hours (beyond it `set_timeout` panics by design);
/// configured timeouts (`Server::timeout`, `Endpoint::timeout`) are never encoded and may be
/// anything up to `Duration::MAX`.
fn mk_timeout_for(sim: &Sim, base_ms: u64, caller: bool) -> Option<Duration> {
    match sim.weighted(&[6, 4, 4, 2, 1]) {
        4 if caller => Some(Duration::from_secs(3600 * sim.pick(&[99_999_999u64, 50_000_000, 1_000_000]))),
        4 => Some(sim.pick(&[Duration::MAX, Duration::from_secs(u64::MAX / 2), Duration::from_secs(i64::MAX as u64), Duration::from_secs(10_000_000_000)])),
        0 => None,
        1 => Some(Duration::from_millis(base_ms)),
        2 => Some(Duration::from_millis(base_ms) + Duration::from_micros(sim.pick(&[0u64, 1, 999, 1000, 2500, 50_000]))),
        _ => Some(Duration::from_millis(base_ms * sim.pick(&[2u64, 10]))),
    }
}

pub fn run_deadline(sim: &Sim, _idx: u64) {
    // configured deadlines
    let base_ms = sim.pick(&[5u64, 20, 100, 1000, 10_000]);
    let server = mk_timeout(sim, base_ms);
    let endpoint = mk_timeout(sim, base_ms);
    let first = draw_deadline_call(sim, base_ms, server, endpoint);
    // a second call on the same channel (and connection) with its own, independent deadline: the
    // deadline belongs to the call, nothing of it may be carried over
    let second: Option<DeadlineCall> = if sim.chance(1, 2) { Some(draw_deadline_call(sim, base_ms, server, endpoint)) } else { None };
    let second_on_new_connection = second.is_some() && sim.chance(1, 2);
    let set_twice = sim.chance(1, 4);
    if second_on_new_connection {
        sim.probe("second-call-on-a-second-connection");
    }
    sim.nontrivial();
    sim.sample(|| format!("server={server:?} endpoint={endpoint:?}; call 1 {first:?}; call 2 {second:?}; second connection={second_on_new_connection} set_timeout twice={set_twice}"));
    sim.ev(|| format!("config: server={server:?} endpoint={endpoint:?}; call 1 {first:?}; call 2 {second:?}"));
    if first.malformed.is_some() && first.d.is_some() {
        sim.probe("malformed-header-with-configured-timeout");
    }
    let netcfg = NetCfg { frag: sim.chance(1, 2), ..NetCfg::ideal() };
    let horizon = Duration::from_secs(7200);
    let calls: Vec<DeadlineCall> = std::iter::once(first.clone()).chain(second.clone()).collect();
    let calls2 = calls.clone();
    let res = run_sim(sim, horizon, || async move {
        let calls = calls2;
        let (_net, connector, rx) = net_and_connector(sim, netcfg, vec![]);
        let handler = Handler::new(sim);
        for (i, c) in calls.iter().enumerate() {
            handler.add_script(i as u64 + 1, Script { msgs: vec![b"pong".to_vec()], latency_us: c.latency.map(|l| l.as_micros() as u64).unwrap_or(u64::MAX), ..Default::default() });
        }
        let _srv = spawn_server::<std::future::Pending<()>>(&handler, &CompCfg { server_accept: vec![], server_send: vec![], client_send: None, client_accept: vec![] }, &ServerOpts { timeout: server, user_layer: sim.chance(1, 3), ..Default::default() }, rx, None);
        let ch = match connect(&ClientOpts { timeout: endpoint, lazy: sim.chance(1, 2), ..Default::default() }, connector.clone()).await {
            Ok(c) => c,
            Err(e) => return Err(format!("connect failed: {e}")),
        };
        let mut out = vec![];
        for (i, c) in calls.iter().enumerate() {
            // the second call may travel on a second connection to the same server (a second
            // channel): the server's configured timeout belongs to the server, not to its first connection
            let ch_i = if i == 1 && second_on_new_connection {
                match connect(&ClientOpts { timeout: endpoint, lazy: false, ..Default::default() }, connector.clone()).await {
                    Ok(c) => c,
                    Err(e) => return Err(format!("second connect failed: {e}")),
                }
            } else {
                ch.clone()
            };
            let mut client = crate::rawsvc::raw_client::RawClient::new(ch_i);
            let mut req = tonic::Request::new(RawMsg(Bytes::from_static(b"ping")));
            req.metadata_mut().insert("sim-call", (i + 1).to_string().parse().unwrap());
            if let Some(t) = c.caller {
                if set_twice {
                    // a default deadline first, then the caller's own: the later call replaces the earlier
                    let max_repr = Duration::from_secs(3600 * 99_999_999);
                    req.set_timeout(t.checked_mul(50).and_then(|d| d.checked_add(Duration::from_secs(5))).filter(|d| *d <= max_repr).unwrap_or(max_repr));
                }
                req.set_timeout(t);
            }
            if let Some(m) = c.malformed {
                req.metadata_mut().insert("grpc-timeout", m.parse().unwrap());
            }
            let t0 = tokio::time::Instant::now();
            // a call that nothing cuts off and whose handler never answers is given up by the harness
            let r = tokio::time::timeout(Duration::from_secs(3000), client.unary(req)).await;
            let el = t0.elapsed();
            match r {
                Err(_) => {
                    out.push(None);
                    break;
                }
                Ok(r) => out.push(Some((r.map(|x| x.into_inner().0.to_vec()).map_err(|e| (e.code(), e.message().to_string())), el))),
            }
        }
        Ok(out)
    });
    let outs = match res {
        None => return v9(sim, "call-hangs", format!("the scenario did not complete within {horizon:?} of virtual time (call 1 {first:?}, call 2 {second:?})")),
        Some(Err(e)) => return v9(sim, "setup-failed", e),
        Some(Ok(x)) => x,
    };
    for (i, (c, o)) in calls.iter().zip(outs.iter()).enumerate() {
        let which = i + 1;
        let (d, latency) = (c.d, c.latency);
        let Some((outcome, elapsed)) = o.clone() else {
            // no outcome within 3000 virtual seconds: fine only if nothing bounds the call and the handler never answers
            if !(d.is_none() && latency.is_none()) {
                v9(sim, "call-hangs", format!("call {which}: no outcome within 3000 virtual seconds (D={d:?}, latency={latency:?})"));
            }
            continue;
        };
        if which == 2 {
            sim.probe("second-call-on-the-same-channel-judged");
        }
        sim.ev(|| format!("call {which}: outcome {outcome:?} after {elapsed:?}"));
        let cut = |o: &Result<Vec<u8>, (Code, String)>| matches!(o, Err((Code::Cancelled, m)) if m == "Timeout expired");
        match (d, latency) {
            (None, Some(l)) => {
                if outcome.as_deref() != Ok(&b"pong"[..]) {
                    v9(sim, "call-without-deadline-affected", format!("call {which}: no timeout configured, latency {l:?}: outcome {outcome:?}"));
                }
            }
            (None, None) => {}
            (Some(d), lat) => {
                let finishes_before = matches!(lat, Some(l) if l + G < d);
                let finishes_after = match lat {
                    None => true,
                    Some(l) => l > d + G,
                };
                if finishes_before {
                    sim.probe("finishes-before-deadline");
                    if outcome.as_deref() != Ok(&b"pong"[..]) {
                        v9(sim, "call-finishing-before-deadline-affected", format!("call {which}: D={d:?}, latency {lat:?}: outcome {outcome:?} after {elapsed:?}"));
                    }
                } else if finishes_after {
                    sim.probe("cut-off-at-deadline");
                    if !cut(&outcome) {
                        v9(sim, "deadline-not-enforced", format!("call {which}: D={d:?} (caller {:?}, malformed header {:?}, server {server:?}, endpoint {endpoint:?}), latency {lat:?}: outcome {outcome:?} after {elapsed:?}", c.caller, c.malformed));
                    } else if elapsed + Duration::from_micros(1) < d.saturating_sub(Duration::from_micros(1)) {
                        v9(sim, "cut-off-before-deadline", format!("call {which}: D={d:?}: cut off after only {elapsed:?}"));
                    } else if elapsed > d + G {
                        v9(sim, "cut-off-late", format!("call {which}: D={d:?}: cut off after {elapsed:?} (caller {:?}, server {server:?}, endpoint {endpoint:?})", c.caller));
                    }
                } else {
                    sim.probe("inside-guard-band");
                    if !(cut(&outcome) || outcome.as_deref() == Ok(&b"pong"[..])) {
                        v9(sim, "unexpected-outcome-at-boundary", format!("call {which}: D={d:?}, latency {lat:?}: outcome {outcome:?}"));
                    }
                }
            }
        }
    }
}

/// The caller's own deadline is enforced locally even when the peer stays silent (a raw h2 server
/// that accepts the request and never answers), with or without an endpoint timeout.
pub fn run_deadline_silent_peer(sim: &Sim, _idx: u64) {
    use crate::rawh2::{spawn_raw_server, RawScript, RespStep};
    use std::sync::{Arc, Mutex};
    let caller_ms = sim.pick(&[5u64, 50, 300, 2_000]);
    let endpoint: Option<Duration> = match sim.draw(3) {
        0 => None,
        1 => Some(Duration::from_millis(caller_ms * 4)),
        _ => Some(Duration::from_millis((caller_ms / 2).max(1))),
    };
    let caller = Duration::from_millis(caller_ms);
    let d = endpoint.map(|e| e.min(caller)).unwrap_or(caller);
    let lazy = sim.chance(1, 2);
    let streaming = sim.chance(1, 2);
    sim.nontrivial();
    sim.sample(|| format!("silent peer: caller timeout {caller:?}, endpoint timeout {endpoint:?} -> D={d:?}; lazy={lazy} streaming={streaming}"));
    sim.ev(|| format!("config: silent peer, caller {caller:?} endpoint {endpoint:?} D={d:?} lazy={lazy} streaming={streaming}"));
    let netcfg = NetCfg { frag: sim.chance(1, 2), ..NetCfg::ideal() };
    let res = run_sim(sim, Duration::from_secs(36_000), || async {
        let (_net, connector, rx) = net_and_connector(sim, netcfg, vec![]);
        // headers never come: the peer reads the request and then sleeps for 10 virtual hours
        let script = RawScript { read_request_first: true, steps: vec![RespStep::Sleep(36_000_000_000)] };
        spawn_raw_server(sim, rx, Arc::new(Mutex::new(vec![script])), Arc::new(Mutex::new(vec![])));
        let ch = match connect(&ClientOpts { timeout: endpoint, lazy, ..Default::default() }, connector).await {
            Ok(c) => c,
            Err(e) => return Err(format!("connect failed: {e}")),
        };
        tokio::time::sleep(Duration::from_millis(50)).await;
        let mut client = crate::rawsvc::raw_client::RawClient::new(ch);
        let mut req = tonic::Request::new(RawMsg(Bytes::from_static(b"ping")));
        req.set_timeout(caller);
        let t0 = tokio::time::Instant::now();
        let r: Result<(), (Code, String)> = if streaming {
            match client.server_stream(req).await {
                Ok(_) => Ok(()),
                Err(e) => Err((e.code(), e.message().to_string())),
            }
        } else {
            client.unary(req).await.map(|_| ()).map_err(|e| (e.code(), e.message().to_string()))
        };
        Ok((r, t0.elapsed()))
    });
    match res {
        None => v9(sim, "call-hangs", format!("silent peer: the call did not complete within 10 virtual hours although the caller's timeout is {caller:?} (endpoint timeout {endpoint:?})")),
        Some(Err(e)) => v9(sim, "setup-failed", e),
        Some(Ok((r, elapsed))) => {
            sim.probe("deadline-against-silent-peer");
            match r {
                Err((Code::Cancelled, m)) if m == "Timeout expired" => {
                    if elapsed + Duration::from_millis(1) < d {
                        v9(sim, "cut-off-before-deadline", format!("silent peer: D={d:?}, cut off after {elapsed:?}"));
                    } else if elapsed > d + G {
                        v9(sim, "cut-off-late", format!("silent peer: D={d:?} (caller {caller:?}, endpoint {endpoint:?}), cut off after {elapsed:?}"));
                    }
                }
                other => v9(sim, "deadline-not-enforced", format!("silent peer: D={d:?} (caller {caller:?}, endpoint {endpoint:?}): outcome {other:?} after {elapsed:?}")),
            }
        }
    }
}
