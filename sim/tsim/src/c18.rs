//! C18 — health service reports the latest status to Check and Watch.  Engine F: histories of
//! set / clear / check / watch / next issued as tasks on the simulator's executor (a `next` with
//! nothing new stays pending while later operations run); everything goes through the generated
//! `HealthClient` calling `health_reporter()`'s `HealthServer` in-process (real codec both ways).
//! Oracle: sequential map model + per-watcher subsequence rule.

use simcore::{Exec, Sim};
use std::cell::RefCell;
use std::collections::HashMap;
use std::rc::Rc;
use tonic_health::pb::health_client::HealthClient;
use tonic_health::pb::{HealthCheckRequest, HealthCheckResponse};
use tonic_health::ServingStatus;
use tonic::{Code, Streaming};

const SERVICES: [&str; 3] = ["", "a", "b"];

/// a service type whose `NamedService::NAME` is SERVICES[1]
struct SvcA;
impl tonic::server::NamedService for SvcA {
    const NAME: &'static str = "a";
}

fn st_name(i: i32) -> &'static str {
    match i {
        0 => "UNKNOWN",
        1 => "SERVING",
        2 => "NOT_SERVING",
        3 => "SERVICE_UNKNOWN",
        _ => "?",
    }
}

fn wire(s: ServingStatus) -> i32 {
    match s {
        ServingStatus::Unknown => 0,
        ServingStatus::Serving => 1,
        ServingStatus::NotServing => 2,
    }
}

#[derive(Clone, Debug)]
enum HEv {
    Set { seq: u64, svc: usize, st: i32 },
    Clear { seq: u64, svc: usize },
    Check { seq: u64, svc: usize, got: Result<i32, Code> },
    Subscribe { seq: u64, svc: usize, w: usize, ok: Result<(), Code> },
    /// a `next` completed: Some(status) / None (end) / Err
    Next { invoke: u64, seq: u64, w: usize, got: Result<Option<i32>, Code> },
}

#[derive(Default)]
struct World {
    seq: u64,
    evs: Vec<HEv>,
    watchers: Vec<Option<Streaming<HealthCheckResponse>>>,
    watcher_svc: Vec<usize>,
    busy: Vec<bool>,
}

impl World {
    fn tick(&mut self) -> u64 {
        self.seq += 1;
        self.seq
    }
}

thread_local! {
    /// the run whose tape decides the lock-acquisition yields (hook H3), and (percentage, consecutive yields)
    static LOCK_SIM: RefCell<Option<(Sim, u64, u32)>> = const { RefCell::new(None) };
}

/// Hook H3: consulted by tonic-health before every acquisition of the status-map lock; `true`
/// makes the acquiring task yield, so that the executor can run another task in the gap — the
/// interleavings a multi-threaded runtime produces between lock acquisitions.
fn lock_hook(kind: &'static str) -> bool {
    LOCK_SIM.with(|l| {
        let mut l = l.borrow_mut();
        let Some((sim, pct, consec)) = l.as_mut() else { return false };
        if *pct == 0 {
            return false;
        }
        if *consec < 3 && sim.chance(*pct, 100) {
            *consec += 1;
            sim.fault(if kind == "write" { "lock-yield-before-write" } else { "lock-yield-before-read" });
            true
        } else {
            *consec = 0;
            false
        }
    })
}

struct LockHookGuard;
impl Drop for LockHookGuard {
    fn drop(&mut self) {
        tonic_health::verif_hooks::set_lock_hook(None);
        LOCK_SIM.with(|l| *l.borrow_mut() = None);
    }
}

pub fn run(sim: &Sim, _idx: u64) {
    // swarm: in half of the runs every lock acquisition may yield first (25 % or 50 %)
    let lock_yield_pct = sim.pick(&[0u64, 0, 25, 50]);
    LOCK_SIM.with(|l| *l.borrow_mut() = Some((sim.clone(), lock_yield_pct, 0)));
    tonic_health::verif_hooks::set_lock_hook(Some(lock_hook));
    let _guard = LockHookGuard;
    let (reporter, server) = tonic_health::server::health_reporter();
    let world = Rc::new(RefCell::new(World::default()));
    let mut exec = Exec::new();
    let nops = sim.range(1, if sim.chance(1, 5) { 30 } else { 12 });
    let mut desc: Vec<String> = vec![];
    for _ in 0..nops {
        let kind = sim.weighted(&[5, 2, 3, 3, 6]);
        let svc = sim.draw(3) as usize;
        match kind {
            0 => {
                let st = sim.pick(&[ServingStatus::Unknown, ServingStatus::Serving, ServingStatus::NotServing]);
                // the typed entry points (`set_serving::<S>()` / `set_not_serving::<S>()`) name the
                // service through `NamedService::NAME`
                let typed = svc == 1 && st != ServingStatus::Unknown && sim.chance(1, 2);
                desc.push(format!("set{}({:?},{})", if typed { "_typed" } else { "" }, SERVICES[svc], st_name(wire(st))));
                let r = reporter.clone();
                let w = world.clone();
                exec.spawn(async move {
                    if typed {
                        if st == ServingStatus::Serving {
                            r.set_serving::<SvcA>().await;
                        } else {
                            r.set_not_serving::<SvcA>().await;
                        }
                    } else {
                        r.set_service_status(SERVICES[svc], st).await;
                    }
                    let mut w = w.borrow_mut();
                    let seq = w.tick();
                    w.evs.push(HEv::Set { seq, svc, st: wire(st) });
                });
            }
            1 => {
                desc.push(format!("clear({:?})", SERVICES[svc]));
                let mut r = reporter.clone();
                let w = world.clone();
                exec.spawn(async move {
                    r.clear_service_status(SERVICES[svc]).await;
                    let mut w = w.borrow_mut();
                    let seq = w.tick();
                    w.evs.push(HEv::Clear { seq, svc });
                });
            }
            2 => {
                desc.push(format!("check({:?})", SERVICES[svc]));
                let mut c = HealthClient::new(server.clone());
                let w = world.clone();
                exec.spawn(async move {
                    let r = c.check(HealthCheckRequest { service: SERVICES[svc].to_string() }).await;
                    let mut w = w.borrow_mut();
                    let seq = w.tick();
                    w.evs.push(HEv::Check { seq, svc, got: r.map(|x| x.into_inner().status).map_err(|e| e.code()) });
                });
            }
            3 => {
                let wid = {
                    let mut w = world.borrow_mut();
                    w.watchers.push(None);
                    w.watcher_svc.push(svc);
                    w.busy.push(true);
                    w.watchers.len() - 1
                };
                desc.push(format!("w{wid}=watch({:?})", SERVICES[svc]));
                let mut c = HealthClient::new(server.clone());
                let w = world.clone();
                exec.spawn(async move {
                    let r = c.watch(HealthCheckRequest { service: SERVICES[svc].to_string() }).await;
                    let mut w = w.borrow_mut();
                    let seq = w.tick();
                    match r {
                        Ok(resp) => {
                            w.watchers[wid] = Some(resp.into_inner());
                            w.busy[wid] = false;
                            w.evs.push(HEv::Subscribe { seq, svc, w: wid, ok: Ok(()) });
                        }
                        Err(e) => w.evs.push(HEv::Subscribe { seq, svc, w: wid, ok: Err(e.code()) }),
                    }
                });
            }
            _ => {
                let n = world.borrow().watchers.len();
                if n == 0 {
                    continue;
                }
                let wid = sim.draw(n as u64) as usize;
                desc.push(format!("next(w{wid})"));
                spawn_next(&mut exec, &world, wid);
            }
        }
        // let the scheduler run a drawn number of steps before the next operation is issued
        let steps = sim.weighted(&[2, 4, 2, 1]);
        for _ in 0..steps {
            if exec.step(sim).is_none() {
                break;
            }
        }
    }
    if !exec.run_until_idle(sim, 100_000) {
        return sim.violation("livelock", "executor never became idle".into());
    }
    // ---- final drain: every live watcher is read until it blocks or ends ----
    let nw = world.borrow().watchers.len();
    for wid in 0..nw {
        for _ in 0..64 {
            if world.borrow().busy[wid] || world.borrow().watchers[wid].is_none() {
                break;
            }
            spawn_next(&mut exec, &world, wid);
            if !exec.run_until_idle(sim, 100_000) {
                return sim.violation("livelock", "executor never became idle during the final drain".into());
            }
        }
    }
    sim.nontrivial();
    sim.sample(|| format!("ops: {}", desc.join("; ")));
    let w = world.borrow();
    sim.ev(|| format!("ops: {}", desc.join("; ")));
    for e in &w.evs {
        sim.ev(|| format!("{e:?}"));
    }
    judge(sim, &w);
}

fn spawn_next(exec: &mut Exec, world: &Rc<RefCell<World>>, wid: usize) {
    let stream = {
        let mut w = world.borrow_mut();
        if w.busy[wid] {
            return;
        }
        match w.watchers[wid].take() {
            Some(s) => {
                w.busy[wid] = true;
                s
            }
            None => return,
        }
    };
    let invoke = world.borrow_mut().tick();
    let w = world.clone();
    exec.spawn(async move {
        let mut stream = stream;
        let r = stream.message().await;
        let mut w = w.borrow_mut();
        let seq = w.tick();
        let got = r.map(|o| o.map(|m| m.status)).map_err(|e| e.code());
        let ended = !matches!(got, Ok(Some(_)));
        w.evs.push(HEv::Next { invoke, seq, w: wid, got });
        if !ended {
            w.watchers[wid] = Some(stream);
            w.busy[wid] = false;
        }
    });
}

fn judge(sim: &Sim, w: &World) {
    // sequential model, replayed in completion order (every operation except `next` completes in
    // the poll that starts it: no lock is held across a yield point)
    let mut model: HashMap<usize, i32> = HashMap::from([(0usize, 1)]);
    // per service: history of (seq, Some(status) | None = cleared); "" starts as SERVING at seq 0
    let mut hist: Vec<Vec<(u64, Option<i32>)>> = vec![vec![(0, Some(1))], vec![], vec![]];
    for e in &w.evs {
        match e {
            HEv::Set { seq, svc, st } => {
                model.insert(*svc, *st);
                hist[*svc].push((*seq, Some(*st)));
            }
            HEv::Clear { seq, svc } => {
                if model.remove(svc).is_some() {
                    hist[*svc].push((*seq, None));
                }
            }
            HEv::Check { svc, got, .. } => {
                let want: Result<i32, Code> = model.get(svc).copied().ok_or(Code::NotFound);
                if *got != want {
                    sim.violation("check-wrong", format!("check({:?}) returned {:?}, most recently set status is {:?}", SERVICES[*svc], got.map(st_name), want.map(st_name)));
                }
                sim.probe(if want.is_ok() { "check-registered" } else { "check-not-found" });
            }
            HEv::Subscribe { svc, ok, .. } => {
                let want = if model.contains_key(svc) { Ok(()) } else { Err(Code::NotFound) };
                if *ok != want {
                    sim.violation("watch-subscribe-wrong", format!("watch({:?}) -> {:?}, expected {:?}", SERVICES[*svc], ok, want));
                }
            }
            HEv::Next { .. } => {}
        }
    }
    // ---- watchers ----
    for wid in 0..w.watchers.len() {
        let svc = w.watcher_svc[wid];
        let Some(sub_seq) = w.evs.iter().find_map(|e| match e {
            HEv::Subscribe { seq, w: ww, ok: Ok(()), .. } if *ww == wid => Some(*seq),
            _ => None,
        }) else {
            continue;
        };
        let h = &hist[svc];
        // the generation of the service this watcher is bound to: from the last entry at or before
        // sub_seq up to (and including) the next clear
        let start = h.iter().rposition(|(s, _)| *s <= sub_seq).unwrap_or(0);
        if h.get(start).map(|e| e.1.is_none()).unwrap_or(true) {
            continue;
        }
        let end_clear = h.iter().enumerate().skip(start).find(|(_, (_, v))| v.is_none()).map(|(i, _)| i);
        let gen: Vec<(u64, i32)> = h[start..end_clear.unwrap_or(h.len())].iter().map(|(s, v)| (*s, v.unwrap())).collect();
        let reports: Vec<(u64, u64, &Result<Option<i32>, Code>)> = w.evs.iter().filter_map(|e| match e {
            HEv::Next { invoke, seq, w: ww, got } if *ww == wid => Some((*invoke, *seq, got)),
            _ => None,
        }).collect();
        let who = format!("watcher w{wid} on {:?} (subscribed at {sub_seq}; statuses of its registration {:?}{})", SERVICES[svc], gen.iter().map(|(s, v)| format!("{}@{s}", st_name(*v))).collect::<Vec<_>>(), if end_clear.is_some() { ", then cleared" } else { "" });
        let mut pos = 0usize; // next admissible index in gen
        let mut last_reported: Option<i32> = None;
        let mut ended = false;
        for (k, (_inv, seq, got)) in reports.iter().enumerate() {
            match got {
                Ok(Some(st)) => {
                    if ended {
                        sim.violation("watch-report-after-end", format!("{who}: report {} after the stream had ended", st_name(*st)));
                        break;
                    }
                    if !gen.iter().any(|(_, v)| v == st) {
                        sim.violation("watch-reports-status-never-set", format!("{who}: report {k} is {}", st_name(*st)));
                        break;
                    }
                    // greedy: earliest admissible history entry with this value, not after the read completed
                    match (pos..gen.len()).find(|i| gen[*i].1 == *st && gen[*i].0 <= *seq) {
                        Some(i) => pos = i + 1,
                        None => {
                            sim.violation("watch-reports-out-of-order-or-stale", format!("{who}: report {k} = {} (read completed at {seq}) cannot be matched to a status set at or after the previous report", st_name(*st)));
                            break;
                        }
                    }
                    last_reported = Some(*st);
                    if k == 0 {
                        sim.probe("watch-first-report");
                    }
                }
                Ok(None) => {
                    ended = true;
                    match end_clear {
                        None => sim.violation("watch-ended-while-registered", format!("{who}: the stream ended although the service was never cleared")),
                        Some(ci) => {
                            if h[ci].0 > *seq {
                                sim.violation("watch-ended-while-registered", format!("{who}: the stream ended at {seq}, before the clear at {}", h[ci].0));
                            }
                            sim.probe("watch-ended-by-clear");
                            // it must have reported the last status before the clear
                            if let Some((_, lastv)) = gen.last() {
                                if last_reported != Some(*lastv) {
                                    sim.violation("watch-ended-without-last-status", format!("{who}: ended after reporting {:?}; the last status before the clear was {}", last_reported.map(st_name), st_name(*lastv)));
                                }
                            }
                        }
                    }
                }
                Err(c) => {
                    sim.violation("watch-stream-error", format!("{who}: next returned error {c:?}"));
                    ended = true;
                }
            }
        }
        // the final drain issues a read on every watcher: one that has reported nothing at all is
        // blocked on its very first read
        if reports.is_empty() {
            sim.violation("watch-first-report-missing", format!("{who}: the first read blocks; no status was ever reported"));
            continue;
        }
        // after the final drain: a live watcher of a still-registered service has converged
        if !ended && !reports.is_empty() {
            match end_clear {
                None => {
                    if let Some((_, cur)) = gen.last() {
                        if last_reported != Some(*cur) {
                            sim.violation("watch-did-not-converge", format!("{who}: drained to {:?} and then blocked, but the current status is {}", last_reported.map(st_name), st_name(*cur)));
                        } else {
                            sim.probe("watch-converged-then-pending");
                        }
                    }
                }
                Some(_) => {
                    // cleared but the drain did not reach the end: only if the last `next` is still pending
                    if !w.busy[wid] {
                        sim.violation("watch-not-ended-after-clear", format!("{who}: the service was cleared but the drained stream neither ended nor blocked"));
                    } else {
                        sim.violation("watch-blocked-after-clear", format!("{who}: the service was cleared but the stream blocks instead of ending"));
                    }
                }
            }
        }
    }
}
