//! C13 — graceful shutdown loses no accepted call.  Engine N: real Server
//! (`serve_with_incoming_shutdown`), real Channels, 1..3 connections, 1..6 unary / streaming calls
//! with virtual-time latencies; the shutdown signal is placed by the tape at a virtual instant or
//! right after the k-th handler entry; one more connection is offered strictly after the signal.

use crate::c02::{self, CallPlan, CompCfg, Observed};
use crate::handlers::Handler;
use crate::nharness::{endpoint, net_and_connector, run_sim, spawn_server_incoming, ClientOpts, ServerOpts};
use crate::rawcodec::RawMsg;
use simcore::Sim;
use simnet::NetCfg;
use std::sync::{Arc, Mutex};
use std::time::Duration;

fn v13(sim: &Sim, class: &str, detail: String) {
    sim.violation(&format!("C13/{class}"), detail);
}

fn no_comp() -> CompCfg {
    CompCfg { server_accept: vec![], server_send: vec![], client_send: None, client_accept: vec![] }
}

pub fn run(sim: &Sim, _idx: u64) {
    let m = sim.weighted(&[1, 5, 3, 2]) as usize; // connections (0 = shutdown with no connection at all)
    let n = if m == 0 { 0 } else { sim.range(1, 6) as usize };
    let keep_channels = sim.chance(1, 2);
    let netcfg = NetCfg { stall_pct: sim.pick(&[0u64, 0, 10]), max_stall_us: 500, ..NetCfg::draw(sim) };
    let mut plans: Vec<(usize, u64, CallPlan)> = vec![]; // (connection, start offset us, plan)
    for i in 0..n {
        let shape = sim.pick(&[0usize, 0, 2, 2, 3, 1]);
        let mut p = c02::gen_plan(sim, i as u64 + 1, shape, 3000);
        p.script.latency_us = sim.pick(&[0u64, 1_000, 30_000, 100_000]);
        p.script.gap_us = if shape >= 2 { sim.pick(&[0u64, 5_000, 20_000, 100_000]) } else { 0 };
        p.extra_polls = 0;
        plans.push((sim.draw(m as u64) as usize, sim.pick(&[0u64, 0, 5_000, 40_000, 80_000]), p));
    }
    // signal placement: virtual instant, or right after the k-th handler entry
    let by_event = n > 0 && sim.chance(1, 2);
    let sig_at_us = sim.pick(&[0u64, 1, 1_000, 5_000, 29_000, 30_000, 31_000, 45_000, 70_000, 100_000, 130_000, 200_000, 400_000]);
    let sig_after_entries = if by_event { sim.range(1, n as u64) as usize } else { 0 };
    let sig_extra_us = sim.pick(&[0u64, 0, 1, 500]);
    // edge placement: the signal fires at the very instant the accept loop is handed one more
    // connection (taken from the incoming stream before the signal) that already carries a call
    let edge = sim.chance(1, 4);
    let edge_at_us = sim.pick(&[0u64, 20, 1_000, 35_000, 90_000]);
    // the listener may report accept errors at any time (they must neither stop the server nor let
    // the serve future resolve early), and shutdown may also begin because the incoming stream
    // *ends* instead of the signal firing (a graceful server still drains)
    let accept_errors: Vec<u64> = if sim.chance(1, 4) { (0..sim.range(1, 3)).map(|_| sim.pick(&[0u64, 500, 20_000, 60_000, 150_000])).collect() } else { vec![] };
    let end_incoming_instead = !edge && sim.chance(1, 5);
    // a burst: 48 connections reach the listener in the very tick in which the signal fires. The
    // accept loop may still take a few of them (listener and signal are ready together), but a
    // server that takes all of them only looks at the signal when nobody is waiting to be accepted
    const BURST: usize = 48;
    let burst = !edge && !end_incoming_instead && sim.chance(1, 6);
    // or the listener is closed first (the incoming stream ends) and the signal fires afterwards
    let end_incoming_before_signal: Option<u64> = if !edge && !end_incoming_instead && !burst && sim.chance(1, 6) { Some(sim.pick(&[0u64, 1_000, 30_000, 100_000])) } else { None };
    // server knobs that must not weaken the drain: a request timeout (bounds the time to the
    // response *headers* only; handler latencies stay below it) and a maximum connection age (the
    // server gracefully retires a connection of that age; its accepted calls still complete and
    // the serve future still waits for it)
    let sopts = ServerOpts {
        timeout: sim.pick(&[None, None, Some(Duration::from_millis(150))]),
        max_connection_age: sim.pick(&[None, None, None, Some(Duration::from_millis(20)), Some(Duration::from_millis(60))]),
        ..Default::default()
    };
    if sopts.timeout.is_some() {
        sim.fault("server-request-timeout-configured");
    }
    if sopts.max_connection_age.is_some() {
        sim.fault("server-max-connection-age-configured");
    }
    sim.nontrivial();
    sim.sample(|| {
        format!(
            "connections={m} keep_channels={keep_channels} signal={} calls={:?}",
            if by_event { format!("{sig_extra_us}us after handler entry #{sig_after_entries}") } else { format!("at t={sig_at_us}us") },
            plans.iter().map(|(c, off, p)| format!("conn{c}@{off}us {} latency={}us gap={}us resp={} end={:?}", c02::SHAPES[p.shape], p.script.latency_us, p.script.gap_us, p.script.msgs.len(), p.script.end.as_ref().map(|e| e.code))).collect::<Vec<_>>()
        )
    });
    sim.ev(|| format!("config: connections={m} keep_channels={keep_channels} by_event={by_event} sig_at_us={sig_at_us} sig_after_entries={sig_after_entries} edge={edge} accept_errors={accept_errors:?} end_incoming_instead={end_incoming_instead} server_timeout={:?} max_connection_age={:?}", sopts.timeout, sopts.max_connection_age));

    let out = run_sim(sim, Duration::from_secs(100_000), || async {
        let (net, connector, rx) = net_and_connector(sim, netcfg, vec![]);
        let handler = Handler::new(sim);
        for (_, _, p) in &plans {
            handler.add_script(p.id, p.script.clone());
        }
        handler.add_script(999, crate::handlers::Script { msgs: vec![b"late".to_vec()], ..Default::default() });
        handler.add_script(998, crate::handlers::Script { msgs: vec![b"edge".to_vec()], ..Default::default() });
        let (sig_tx, sig_rx) = tokio::sync::oneshot::channel::<()>();
        let sig_tx = Arc::new(Mutex::new(Some(sig_tx)));
        let edge_fired: Arc<Mutex<Option<Duration>>> = Arc::new(Mutex::new(None));
        // every connection the accept loop is handed is recorded (those are the accepted ones)
        let yielded: Arc<Mutex<Vec<usize>>> = Arc::new(Mutex::new(vec![]));
        let hook: Option<Box<dyn FnMut(usize) + Send>> = {
            let (sig_tx, edge_fired, net2, sim2, m2, yielded) = (sig_tx.clone(), edge_fired.clone(), net.clone(), sim.clone(), m, yielded.clone());
            Some(Box::new(move |conn_id: usize| {
                yielded.lock().unwrap().push(conn_id);
                if edge && conn_id >= m2 {
                    if let Some(tx) = sig_tx.lock().unwrap().take() {
                        let now = net2.now();
                        sim2.ev(|| format!("t={now:?} SHUTDOWN SIGNAL fired as connection {conn_id} is handed to the accept loop"));
                        *edge_fired.lock().unwrap() = Some(now);
                        let _ = tx.send(());
                    }
                }
            }))
        };
        // the listener: connections from the connector are forwarded into the incoming stream, which
        // the scenario can also feed with accept errors or end
        let (inc_tx, inc_rx) = tokio::sync::mpsc::unbounded_channel::<Result<simnet::SimStream, std::io::Error>>();
        let inc_tx: Arc<Mutex<Option<tokio::sync::mpsc::UnboundedSender<Result<simnet::SimStream, std::io::Error>>>>> = Arc::new(Mutex::new(Some(inc_tx)));
        {
            let inc_tx = inc_tx.clone();
            let mut rx = rx;
            tokio::spawn(async move {
                while let Some(s) = rx.recv().await {
                    let tx = inc_tx.lock().unwrap().clone();
                    match tx {
                        Some(tx) => {
                            let _ = tx.send(Ok(s));
                        }
                        None => break, // listener closed: the stream (and with it the connection) is dropped
                    }
                }
            });
        }
        for at in accept_errors.clone() {
            let (inc_tx, sim2) = (inc_tx.clone(), sim.clone());
            tokio::spawn(async move {
                tokio::time::sleep(Duration::from_micros(at)).await;
                if let Some(tx) = inc_tx.lock().unwrap().clone() {
                    sim2.fault("accept-error");
                    let _ = tx.send(Err(std::io::Error::new(sim2.pick(&[std::io::ErrorKind::Other, std::io::ErrorKind::ConnectionAborted, std::io::ErrorKind::OutOfMemory]), "simulated accept error")));
                }
            });
        }
        let inc_ended_at: Arc<Mutex<Option<Duration>>> = Arc::new(Mutex::new(None));
        let incoming = tokio_stream::wrappers::UnboundedReceiverStream::new(inc_rx);
        let srv = spawn_server_incoming(&handler, &no_comp(), &sopts, incoming, Some(async move {
            let _ = sig_rx.await;
        }), hook);
        // record the virtual instant at which the serve future resolves
        let resolved_at: Arc<Mutex<Option<(Duration, u64)>>> = Arc::new(Mutex::new(None));
        let srv = {
            let (net, resolved_at) = (net.clone(), resolved_at.clone());
            tokio::spawn(async move {
                let r = srv.await;
                *resolved_at.lock().unwrap() = Some((net.now(), net.tick()));
                r
            })
        };
        // connections, eagerly, before anything else
        let mut channels = vec![];
        for _ in 0..m {
            match tokio::time::timeout(Duration::from_secs(30), endpoint(&ClientOpts::default()).connect_with_connector(connector.clone())).await {
                Ok(Ok(c)) => channels.push(c),
                other => return v13(sim, "setup-connect-failed", format!("{:?}", other.map(|r| r.map(|_| ()).map_err(|e| e.to_string())))),
            }
        }
        tokio::time::sleep(Duration::from_micros(10)).await;
        let t_start = net.now();
        if let Some(at) = end_incoming_before_signal {
            // (after the set-up connections: the listener closes `at` after the calls start)
            let (inc_tx, sim2, net2, inc_ended_at) = (inc_tx.clone(), sim.clone(), net.clone(), inc_ended_at.clone());
            tokio::spawn(async move {
                tokio::time::sleep(Duration::from_micros(at)).await;
                if inc_tx.lock().unwrap().take().is_some() {
                    let now = net2.now();
                    sim2.fault("incoming-stream-ends-before-the-signal");
                    sim2.ev(|| format!("t={now:?} INCOMING STREAM ENDS (the signal is still to come)"));
                    *inc_ended_at.lock().unwrap() = Some(now);
                }
            });
        }
        // calls
        let results: Arc<Mutex<Vec<Option<Observed>>>> = Arc::new(Mutex::new((0..n).map(|_| None).collect()));
        let mut tasks = vec![];
        for (k, (ci, off, p)) in plans.iter().cloned().enumerate() {
            let ch = channels[ci].clone();
            let sim2 = sim.clone();
            let res = results.clone();
            tasks.push(tokio::spawn(async move {
                tokio::time::sleep(Duration::from_micros(off)).await;
                let mut client = crate::rawsvc::raw_client::RawClient::new(ch);
                if let Ok(o) = tokio::time::timeout(Duration::from_secs(600), c02::perform::<RawMsg, _>(&sim2, &mut client, &p)).await {
                    res.lock().unwrap()[k] = Some(o);
                }
            }));
        }
        // the signal
        let t_sig: Duration;
        let mut edge_result: Option<Option<bool>> = None;
        if edge {
            tokio::time::sleep(Duration::from_micros(edge_at_us)).await;
            let connector2 = connector.clone();
            // (the caller keeps this channel, like the others, if channels are kept)
            let edge_ch = endpoint(&ClientOpts::default()).connect_with_connector_lazy(connector2);
            if keep_channels {
                channels.push(edge_ch.clone());
            }
            let r = tokio::time::timeout(Duration::from_secs(120), async move {
                let ch = edge_ch;
                let mut client = crate::rawsvc::raw_client::RawClient::new(ch);
                let mut req = tonic::Request::new(RawMsg(bytes::Bytes::from_static(b"edge")));
                req.metadata_mut().insert("sim-call", "998".parse().unwrap());
                client.unary(req).await.map(|r| r.into_inner().0.to_vec())
            })
            .await;
            edge_result = Some(r.ok().map(|x| matches!(x.as_deref(), Ok(b) if b == b"edge")));
        } else if by_event {
            loop {
                if handler.entered().len() >= sig_after_entries {
                    break;
                }
                let waited = tokio::time::timeout(Duration::from_secs(5), handler.notify.notified()).await;
                if waited.is_err() && handler.entered().len() < sig_after_entries {
                    break; // fewer entries than planned: signal now
                }
            }
            if sig_extra_us > 0 {
                tokio::time::sleep(Duration::from_micros(sig_extra_us)).await;
            }
        } else {
            tokio::time::sleep(Duration::from_micros(sig_at_us)).await;
        }
        t_sig = edge_fired.lock().unwrap().unwrap_or_else(|| net.now());
        let entered_at_signal = handler.entered().len();
        let mut burst_clients = vec![];
        let mut burst_ids: Vec<usize> = vec![];
        if burst {
            if let Some(tx) = inc_tx.lock().unwrap().clone() {
                for _ in 0..BURST {
                    let (c, s) = net.pair();
                    burst_ids.push(s.conn_id());
                    let _ = tx.send(Ok(s));
                    burst_clients.push(c);
                }
            }
            sim.fault("connection-burst-at-the-signal");
            sim.ev(|| format!("t={t_sig:?} {BURST} connections reach the listener together with the signal"));
        }
        if end_incoming_instead {
            // the incoming stream ends; the signal itself never fires
            sim.ev(|| format!("t={t_sig:?} INCOMING STREAM ENDS ({entered_at_signal} handlers entered so far)"));
            sim.fault("incoming-stream-ends");
            inc_tx.lock().unwrap().take();
        } else if let Some(tx) = sig_tx.lock().unwrap().take() {
            sim.ev(|| format!("t={t_sig:?} SHUTDOWN SIGNAL ({entered_at_signal} handlers entered so far)"));
            let _ = tx.send(());
        }
        if entered_at_signal == 0 {
            sim.probe("signal-before-any-handler-entry");
        } else if entered_at_signal < n {
            sim.probe("signal-with-calls-in-flight-and-calls-not-yet-accepted");
        }
        // one more connection, strictly after the signal
        tokio::time::sleep(Duration::from_micros(sim.pick(&[1u64, 1_000]))).await;
        drop(burst_clients); // the burst's clients give up
        let conns_before_late = net.n_conns();
        let late = {
            let connector = connector.clone();
            tokio::spawn(async move {
                let ch = endpoint(&ClientOpts::default()).connect_with_connector_lazy(connector);
                let mut client = crate::rawsvc::raw_client::RawClient::new(ch);
                let mut req = tonic::Request::new(RawMsg(bytes::Bytes::from_static(b"late")));
                req.metadata_mut().insert("sim-call", "999".parse().unwrap());
                tokio::time::timeout(Duration::from_secs(20), client.unary(req)).await.map(|r| r.is_ok()).unwrap_or(false)
            })
        };
        // wait for the calls
        for t in tasks {
            let _ = t.await;
        }
        if !keep_channels {
            channels.clear();
        }
        let late_ok = late.await.unwrap_or(false);
        // the serve future
        let t_wait0 = net.now();
        let serve_res = tokio::time::timeout(Duration::from_secs(300), srv).await;
        let (t_res, seq_res) = resolved_at.lock().unwrap().unwrap_or_else(|| (net.now(), u64::MAX));
        let resolved = serve_res.is_ok();
        let serve_res = serve_res.map(|r| r.map_err(|e| e.to_string()).and_then(|x| x.map_err(|e| e.to_string())));
        // ---- oracle ----
        let entered = handler.entered();
        // (1) every accepted call completes with the full, true outcome
        let results = results.lock().unwrap();
        for (k, (_, _, p)) in plans.iter().enumerate() {
            if !entered.contains(&p.id) {
                sim.probe("call-not-accepted");
                continue;
            }
            sim.probe("accepted-call-judged");
            match &results[k] {
                None => v13(sim, "accepted-call-never-completes", format!("call {} {} entered its handler but its caller got no outcome within 600 virtual seconds (signal at {t_sig:?})", p.id, c02::SHAPES[p.shape])),
                Some(o) => {
                    // the C02 oracle, under this property's namespace
                    let before = sim.has_violation();
                    c02::judge::<RawMsg>(sim, p, o, handler.log(p.id).as_ref());
                    if !before && sim.has_violation() {
                        v13(sim, "accepted-call-lost-or-altered", format!("call {} {} (handler entered; signal at {t_sig:?}): caller outcome differs from what the handler produced — see the C02/ detail of this run: call_err={:?} items={} clean_end={} stream_err={:?}", p.id, c02::SHAPES[p.shape], o.call_err.as_ref().map(|e| (e.code(), e.message().to_string())), o.items.len(), o.clean_end, o.stream_err.as_ref().map(|e| (e.code(), e.message().to_string()))));
                    }
                }
            }
        }
        // (1b) a call on a connection that the accept loop had taken when the signal fired
        if let Some(r) = edge_result {
            sim.probe("signal-as-connection-is-accepted");
            // Not judged: whether such a call is served depends on whether its request reaches the
            // server before the final GOAWAY of hyper's graceful shutdown; on the unmodified tree
            // both outcomes occur (the call had not been accepted: its handler was never entered).
            match r {
                Some(true) => sim.probe("call-on-connection-accepted-at-signal-served"),
                Some(false) => sim.probe("call-on-connection-accepted-at-signal-refused"),
                None => v13(sim, "call-on-connection-accepted-at-signal-hangs", format!("the signal fired at {t_sig:?}, exactly as the accept loop was handed a connection carrying a call: no outcome within 120 virtual seconds")),
            }
        }
        // (2) no connection accepted after the signal
        if entered.contains(&999) || late_ok {
            v13(sim, "connection-accepted-after-signal", format!("the connection offered after the signal was served (handler entered: {}, call succeeded: {late_ok})", entered.contains(&999)));
        }
        // (2b) the burst that arrived together with the signal
        if burst {
            let taken = yielded.lock().unwrap().iter().filter(|id| burst_ids.contains(id)).count();
            sim.ev(|| format!("{taken} of the {BURST} burst connections were handed to the accept loop"));
            if taken == BURST {
                v13(sim, "signal-ignored-while-connections-are-queued", format!("all {BURST} connections that reached the listener together with the signal were accepted after it"));
            } else {
                sim.probe("burst-at-signal-mostly-refused");
            }
        }
        // (3) the serve future resolves only after all (accepted) connections have closed, and does resolve
        let accepted: Vec<usize> = yielded.lock().unwrap().clone();
        let all_drops = net.server_drop_times();
        let drops: Vec<Option<Duration>> = accepted.iter().map(|id| all_drops[*id]).collect();
        let _ = conns_before_late;
        if resolved {
            sim.probe("serve-resolved");
            let all_seqs = net.server_drop_seqs();
            let seqs: Vec<Option<u64>> = accepted.iter().map(|id| all_seqs[*id]).collect();
            for (i, d) in drops.iter().enumerate() {
                match (d, seqs.get(i).copied().flatten()) {
                    (None, _) => v13(sim, "serve-resolved-before-connections-closed", format!("serve future resolved at {t_res:?} while the server side of connection {i} is still open")),
                    (Some(d), Some(sq)) if sq > seq_res => v13(sim, "serve-resolved-before-connections-closed", format!("serve future resolved at {t_res:?} (event {seq_res}), connection {i} closed at {d:?} (event {sq})")),
                    _ => {}
                }
            }
            if let Ok(Err(e)) = &serve_res {
                v13(sim, "serve-returned-error", e.clone());
            }
            // shutdown begins with the signal, or earlier when the listener was closed first
            let began = inc_ended_at.lock().unwrap().map(|t| t.min(t_sig)).unwrap_or(t_sig);
            if t_res < began {
                v13(sim, "serve-resolved-before-signal", format!("resolved at {t_res:?}, signal at {t_sig:?}"));
            }
        } else if drops.iter().all(|d| d.is_some()) {
            v13(sim, "serve-does-not-resolve", format!("all {} connections closed by {:?} (signal at {t_sig:?}) but the serve future had not resolved 300 virtual seconds after {t_wait0:?}", drops.len(), drops.iter().flatten().max()));
        } else {
            // Shutdown has begun (signal fired or listener closed), every call has long finished and
            // 300 virtual seconds have passed: a graceful server closes its connections then, also
            // idle ones whose clients keep their channels, and the serve future resolves. (First
            // kept as a probe only; on the unmodified tree it never fired in millions of runs.)
            let open: Vec<usize> = accepted.iter().zip(drops.iter()).filter(|(_, d)| d.is_none()).map(|(id, _)| *id).collect();
            v13(sim, "serve-never-resolves-after-shutdown-began", format!("shutdown began at {t_sig:?}; 300 virtual seconds after the last call finished the serve future has not resolved and the server still holds connections {open:?} open (clients keep channels: {keep_channels})"));
        }
        let _ = t_start;
    });
    if out.is_none() {
        v13(sim, "run-hangs", "the scenario did not finish within the virtual horizon".into());
    }
}
