//! C01 — message streams survive encode/decode unchanged under any chunking; encoder output does
//! not depend on source readiness.  Engine F: `EncodeBody` and `Streaming` are real; the message
//! source, the body between them, its chunking and readiness are simulated.
//! Also feeds C03 (wire monitor).  Classes are namespaced.

use crate::c03;
use crate::c07::{gen_msg_sizes, gen_pb};
use crate::fdrive::{check_terminal, consume_body, drain_stream, show, BodyObs, SEv};
use crate::indep::{self, Enc};
use crate::pb::Msg;
use crate::rawcodec::{RawCfg, RawCodec, RawMsg};
use crate::seams::{cut_bytes, Ev, Segmented, SimBody, SimSource};
use bytes::Bytes;
use http::StatusCode;
use prost::Message;
use simcore::{drive, Drive, Sim};
use tonic::codec::{BufferSettings, Codec, CompressionEncoding, EncodeBody, ProstCodec, Streaming};
use tonic::Status;

#[derive(Clone, Copy, Debug, PartialEq, Eq)]
pub enum Role {
    Client,
    Server,
}

pub fn encode_body<E>(sim: &Sim, role: Role, encoder: E, items: Vec<Result<E::Item, Status>>, pending_pct: u64, enc: Option<CompressionEncoding>, limit: Option<usize>, past: u32) -> BodyObs
where
    E: tonic::codec::Encoder<Error = Status> + Send + 'static,
    E::Item: Unpin + Send + 'static,
{
    let src = SimSource::new(sim, items, pending_pct);
    match role {
        Role::Client => {
            let mut b: std::pin::Pin<Box<dyn http_body::Body<Data = Bytes, Error = Status>>> = Box::pin(EncodeBody::new_client(encoder, src, enc, limit));
            consume_body(sim, &mut b, past)
        }
        Role::Server => {
            let mut b: std::pin::Pin<Box<dyn http_body::Body<Data = Bytes, Error = Status>>> = Box::pin(EncodeBody::new_server(encoder, src, enc, Default::default(), limit));
            consume_body(sim, &mut b, past)
        }
    }
}

pub struct Cfg {
    pub role: Role,
    pub enc: Option<Enc>,
    pub prost: bool,
    pub enc_buffer: usize,
    pub enc_yield: usize,
    pub dec_buffer: usize,
    pub src_pending: u64,
    pub body_pending: u64,
}

pub fn draw_cfg(sim: &Sim) -> Cfg {
    Cfg {
        role: if sim.chance(1, 2) { Role::Client } else { Role::Server },
        enc: if sim.chance(1, 2) { Some(sim.pick(&indep::ALL_ENC)) } else { None },
        prost: sim.chance(1, 3),
        enc_buffer: sim.pick(&[1usize, 7, 64, 8192]),
        enc_yield: sim.pick(&[0usize, 1, 5, 64, 1000, 32768]),
        dec_buffer: sim.pick(&[1usize, 7, 64, 8192]),
        src_pending: sim.pick(&[0u64, 10, 50, 90]),
        body_pending: sim.pick(&[0u64, 10, 50, 90]),
    }
}

pub fn run(sim: &Sim, _idx: u64) {
    let cfg = draw_cfg(sim);
    let k = sim.range(0, 8);
    let mut sizes = gen_msg_sizes(sim, k, 100_000);
    // bias some sizes to the yield threshold boundary
    for s in sizes.iter_mut() {
        if sim.chance(1, 6) {
            let d = sim.pick(&[-6i64, -5, -1, 0, 1]);
            *s = (cfg.enc_yield as i64 + d).max(0) as usize;
        }
        if sim.chance(1, 60) {
            *s = sim.range(100_000, 1_100_000) as usize;
        }
    }
    let pbs: Vec<Msg> = if cfg.prost { sizes.iter().map(|s| gen_pb(sim, *s)).collect() } else { vec![] };
    let sers: Vec<Vec<u8>> = if cfg.prost { pbs.iter().map(|m| m.encode_to_vec()).collect() } else { sizes.iter().map(|s| sim.bytes(*s)).collect() };
    for s in &sers {
        if s.is_empty() {
            sim.probe("zero-length-message");
        }
        if s.len() > cfg.dec_buffer {
            sim.probe("message-larger-than-decoder-buffer");
        }
    }
    let tenc = cfg.enc.map(|e| e.tonic());
    sim.sample(|| format!("role={:?} enc={:?} prost={} enc_buf={} yield={} dec_buf={} src_pending%={} body_pending%={} msg_sizes={:?}", cfg.role, cfg.enc, cfg.prost, cfg.enc_buffer, cfg.enc_yield, cfg.dec_buffer, cfg.src_pending, cfg.body_pending, sers.iter().map(|s| s.len()).collect::<Vec<_>>()));
    sim.ev(|| format!("config: role={:?} enc={:?} prost={} enc_buf={} yield={} dec_buf={} src_pending%={} body_pending%={} msg_sizes={:?}", cfg.role, cfg.enc, cfg.prost, cfg.enc_buffer, cfg.enc_yield, cfg.dec_buffer, cfg.src_pending, cfg.body_pending, sers.iter().map(|s| s.len()).collect::<Vec<_>>()));

    // ---- encode twice: under the drawn schedule, and under the all-Ready reference schedule ----
    let bs = BufferSettings::new(cfg.enc_buffer, cfg.enc_yield);
    let (obs, refobs) = if cfg.prost {
        let items = |_: ()| pbs.iter().cloned().map(Ok).collect::<Vec<_>>();
        sim.ev(|| "encode under drawn schedule".into());
        let a = encode_body(sim, cfg.role, ProstCodec::<Msg, Msg>::raw_encoder(bs), items(()), cfg.src_pending, tenc, None, 2);
        sim.ev(|| "encode under all-Ready reference schedule".into());
        let b = encode_body(sim, cfg.role, ProstCodec::<Msg, Msg>::raw_encoder(bs), items(()), 0, tenc, None, 0);
        (a, b)
    } else {
        crate::rawcodec::draw_styles(sim);
        let rc = RawCfg { enc_buffer: cfg.enc_buffer, enc_yield: cfg.enc_yield, ..RawCfg::default() };
        let items = |_: ()| sers.iter().map(|s| Ok(RawMsg(Bytes::from(s.clone())))).collect::<Vec<_>>();
        sim.ev(|| "encode under drawn schedule".into());
        let a = encode_body(sim, cfg.role, RawCodec(rc).encoder(), items(()), cfg.src_pending, tenc, None, 2);
        sim.ev(|| "encode under all-Ready reference schedule".into());
        let b = encode_body(sim, cfg.role, RawCodec(rc).encoder(), items(()), 0, tenc, None, 0);
        (a, b)
    };
    if cfg.src_pending > 0 {
        sim.nontrivial();
    }
    let data = obs.data();
    let nframes = obs.frames.iter().filter(|f| matches!(f, crate::fdrive::FrameObs::Data(_))).count();
    if nframes > 1 {
        sim.probe("encoder-emitted-several-data-frames");
    }
    if cfg.src_pending > 0 && nframes > 1 {
        sim.probe("pending-with-nonempty-buf");
    }
    if obs.past_end.iter().any(|s| s.starts_with("Data")) {
        sim.probe("body-returns-data-when-polled-past-end");
    }

    // ---- encoder-side oracle ----
    match obs.ended_by {
        "hang" => sim.violation("C01/lost-wakeup-in-encoder", "EncodeBody returned Pending with no wake-up registered".into()),
        "livelock" => sim.violation("C01/livelock-in-encoder", "EncodeBody never finished within the poll budget".into()),
        _ => {}
    }
    if let Some((c, m)) = obs.error() {
        sim.violation("C01/encoder-error-on-valid-input", format!("body error {c:?} {m:?}"));
    }
    match cfg.role {
        Role::Server => {
            c03::check_server_body_end(sim, "EncodeBody(server)", &obs, 0);
            if let Some(t) = obs.trailers().first() {
                if t.get("grpc-status").map(|v| v.as_bytes()) != Some(b"0") {
                    sim.violation("C01/non-ok-status-after-clean-source", format!("trailers {:?}", t));
                }
            }
        }
        Role::Client => c03::check_client_body(sim, "EncodeBody(client)", &obs),
    }
    if data != refobs.data() {
        sim.violation(
            "C01/encoder-output-depends-on-schedule",
            format!("concatenated bytes differ between the drawn schedule ({}B in {} frames) and the all-Ready schedule ({}B)", data.len(), nframes, refobs.data().len()),
        );
    }
    if cfg.enc.is_none() {
        let mut expect = vec![];
        for s in &sers {
            expect.extend(indep::frame(0, s));
        }
        if data != expect {
            sim.violation("C01/identity-bytes-differ-from-reference-framing", format!("{}B emitted, {}B expected", data.len(), expect.len()));
        }
    }
    c03::check_message_bytes(sim, "EncodeBody", &data, cfg.enc, &sers, true);
    if cfg.enc.is_some() {
        let (frames, _) = indep::parse_frames(&data);
        if frames.iter().any(|f| f.flag == 0) && !sers.is_empty() {
            // property: compressed "exactly when the flag is 1" is checked above; that a stream
            // with an encoding compresses every message is what the encoder does — recorded only
            sim.probe("uncompressed-frame-on-compressed-stream");
        }
    }

    // ---- decode: re-cut the bytes, deliver with readiness delays ----
    let (frames, _) = indep::parse_frames(&data);
    let starts: Vec<usize> = frames.iter().map(|f| f.start).collect();
    let chunks = cut_bytes(sim, &data, &starts);
    // probe: a cut inside a compressed payload
    if cfg.enc.is_some() {
        let mut off = 0usize;
        for c in &chunks {
            off += c.len();
            if frames.iter().any(|f| f.flag == 1 && off > f.start + 5 && off < f.start + 5 + f.payload.len()) {
                sim.probe("cut-inside-compressed-payload");
                break;
            }
        }
    }
    let mut evs: Vec<Ev> = chunks.into_iter().map(Ev::Data).collect();
    let sent_trailers = obs.trailers().first().cloned().cloned();
    if let Some(t) = &sent_trailers {
        evs.push(Ev::Trailers(t.clone()));
    }
    let body = Segmented::new(SimBody::new(sim, "wire", evs, cfg.body_pending, sim.chance(1, 4)).with_size_hint(if sim.chance(1, 3) { crate::seams::SizeHint::ExactTrue } else { crate::seams::SizeHint::Unknown }));
    let extra = sim.range(1, 4) as u32;
    let want_status = cfg.role == Role::Server;

    let (observed, trailers_result): (Vec<SEv>, Result<Option<http::HeaderMap>, String>) = if cfg.prost {
        let dec = ProstCodec::<Msg, Msg>::raw_decoder(BufferSettings::new(cfg.dec_buffer, 32 * 1024));
        let mut s = if want_status { Streaming::new_response(dec, body, StatusCode::OK, tenc, None) } else { Streaming::new_request(dec, body, tenc, None) };
        let o = drain_stream(sim, &mut s, &|m: &Msg| m.encode_to_vec(), extra, 64);
        (o, fetch_trailers(sim, &mut s))
    } else {
        let dec = RawCodec(RawCfg { dec_buffer: cfg.dec_buffer, ..RawCfg::default() }).decoder();
        let mut s = if want_status { Streaming::new_response(dec, body, StatusCode::OK, tenc, None) } else { Streaming::new_request(dec, body, tenc, None) };
        let o = drain_stream(sim, &mut s, &|m: &RawMsg| m.0.to_vec(), extra, 64);
        (o, fetch_trailers(sim, &mut s))
    };

    for (class, detail) in check_terminal(&observed, "") {
        sim.violation(&format!("C01/{class}"), detail);
    }
    let got: Vec<&Vec<u8>> = observed.iter().take_while(|e| matches!(e, SEv::Item(_))).map(|e| if let SEv::Item(b) = e { b } else { unreachable!() }).collect();
    let next = observed.get(got.len());
    if got.len() != sers.len() || got.iter().zip(sers.iter()).any(|(a, b)| *a != b) {
        sim.violation(
            "C01/decoded-messages-differ",
            format!("sent {} messages {:?}, decoded {}; history {}", sers.len(), sers.iter().map(|s| s.len()).collect::<Vec<_>>(), got.len(), show(&observed)),
        );
    } else if !matches!(next, Some(SEv::End)) {
        sim.violation("C01/no-clean-end-after-last-message", format!("after {} messages the stream gave {:?}; history {}", got.len(), next.map(|e| e.short()), show(&observed)));
    }
    match (&trailers_result, &sent_trailers) {
        (Ok(Some(t)), Some(sent)) => {
            if t != sent {
                sim.violation("C01/trailers-differ", format!("sent {:?}, trailers() returned {:?}", sent, t));
            }
        }
        (Ok(None), None) => {}
        (Ok(None), Some(sent)) => sim.violation("C01/trailers-lost", format!("sent {:?}, trailers() returned None", sent)),
        (Ok(Some(t)), None) => sim.violation("C01/trailers-invented", format!("no trailers sent, trailers() returned {:?}", t)),
        (Err(e), _) => {
            if !sim.has_violation() {
                sim.violation("C01/trailers-call-failed", e.clone());
            }
        }
    }
}

fn fetch_trailers<T>(sim: &Sim, s: &mut Streaming<T>) -> Result<Option<http::HeaderMap>, String> {
    let fut = s.trailers();
    let mut fut = std::pin::pin!(fut);
    match drive(sim, fut.as_mut(), 100_000) {
        Drive::Done(Ok(t)) => Ok(t.map(|m| m.into_headers())),
        Drive::Done(Err(e)) => Err(format!("trailers() failed: {:?} {:?}", e.code(), e.message())),
        Drive::Hang { .. } => Err("trailers() hung".into()),
        Drive::Stalled { .. } => Err("trailers() stalled".into()),
        Drive::Budget { .. } => Err("trailers() livelocked".into()),
    }
}
