//! C08 — foreign-peer half: a peer that pads (or does not pad) base64 `-bin` values, repeats keys,
//! and is observed / driven at the header level.  (tonic<->tonic identity and the reserved-name
//! canaries ride on the C02 loopback runs.)

use crate::c02::SHAPES;
use crate::gen::{check_md_received, gen_md, md_summary, MdEntry};
use crate::handlers::{Handler, Script};
use crate::indep;
use crate::peer::{raw_call, PeerScript, PeerSvc};
use crate::rawcodec::RawMsg;
use crate::seams::{cut_bytes, Ev};
use bytes::Bytes;
use simcore::{drive, Drive, Sim};

fn wire_entries(sim: &Sim, md: &[MdEntry]) -> Vec<(String, Vec<u8>)> {
    md.iter()
        .filter(|e| e.expected())
        .map(|e| {
            if e.bin {
                let pad = sim.chance(1, 2);
                if pad && e.val.len() % 3 != 0 {
                    sim.probe("padded-base64-from-peer");
                }
                (e.key.clone(), indep::b64_encode(&e.val, pad).into_bytes())
            } else {
                (e.key.clone(), e.val.clone())
            }
        })
        .collect()
}

/// foreign client -> tonic server: the handler must read the original bytes
pub fn run_to_server(sim: &Sim, _idx: u64) {
    let md = gen_md(sim, 8, false);
    let handler = Handler::new(sim);
    handler.add_script(1, Script { msgs: vec![vec![1, 2, 3]], ..Default::default() });
    let mut server = crate::rawsvc::raw_server::RawServer::new(handler.clone());
    let mut headers: Vec<(String, Vec<u8>)> = vec![("content-type".into(), b"application/grpc".to_vec()), ("te".into(), b"trailers".to_vec()), ("sim-call".into(), b"1".to_vec())];
    headers.extend(wire_entries(sim, &md));
    sim.nontrivial();
    sim.sample(|| format!("foreign client -> server: metadata {}", md_summary(&md)));
    let frame = indep::frame(0, b"hello");
    let body = cut_bytes(sim, &frame, &[0]).into_iter().map(Ev::Data).collect();
    let Some(_resp) = raw_call(sim, "C08", &mut server, http::Method::POST, "/sim.Raw/Unary", &headers, body, 0) else { return };
    match handler.log(1).and_then(|l| l.md) {
        Some(got) => check_md_received(sim, "foreign client -> handler", &md, &got),
        None => sim.violation("C08/handler-not-invoked", "request with foreign metadata did not reach the handler".into()),
    }
}

/// foreign server -> tonic client: response headers, trailers and error-status metadata
pub fn run_to_client(sim: &Sim, _idx: u64) {
    let head_md = gen_md(sim, 5, false);
    // trailer keys are kept disjoint from header keys: how a unary response merges a key present in
    // both blocks is not something the property speaks about
    let trail_md: Vec<MdEntry> = gen_md(sim, 5, false).into_iter().map(|mut e| { e.key = format!("t{}", e.key); e }).collect();
    let shape = if sim.chance(1, 2) { 0 } else { 2 };
    let fail = sim.chance(1, 2);
    let peer = PeerSvc::new(sim);
    let mut script = PeerScript::ok_grpc();
    script.headers.extend(wire_entries(sim, &head_md));
    let mut trailers: Vec<(String, Vec<u8>)> = vec![("grpc-status".into(), if fail { b"9".to_vec() } else { b"0".to_vec() })];
    if fail {
        // the status fields next to the metadata may be absent, well-formed, or undecodable (a message
        // that is not UTF-8 after percent-decoding, details that are not base64): the status then
        // degrades (C04), the metadata attached to it must arrive all the same
        match sim.weighted(&[1, 4, 2, 2]) {
            0 => {}
            1 => trailers.push(("grpc-message".into(), b"nope".to_vec())),
            2 => trailers.push(("grpc-message".into(), b"caf%C3%A9%20%E2%9C%93".to_vec())),
            _ => {
                trailers.push(("grpc-message".into(), sim.pick(&["bad%FFmessage", "%C3", "a%80b"]).as_bytes().to_vec()));
                sim.probe("error-status-with-undecodable-message-and-metadata");
            }
        }
        match sim.weighted(&[4, 1, 1]) {
            0 => {}
            1 => trailers.push(("grpc-status-details-bin".into(), indep::b64_encode(&sim.bytes(7), sim.chance(1, 2)).into_bytes())),
            _ => {
                trailers.push(("grpc-status-details-bin".into(), b"!!!notbase64".to_vec()));
                sim.probe("error-status-with-undecodable-details-and-metadata");
            }
        }
    }
    trailers.extend(wire_entries(sim, &trail_md));
    let trailers_only = fail && sim.chance(1, 3);
    if trailers_only {
        script.headers.extend(trailers.clone());
    } else {
        let mut data = vec![];
        let n = if shape == 0 { (!fail) as u64 } else { sim.range(0, 2) };
        for _ in 0..n {
            data.extend(indep::frame(0, &sim.bytes(sim.range(0, 20) as usize)));
        }
        script.body = cut_bytes(sim, &data, &[0]).into_iter().map(Ev::Data).collect();
        script.body.push(Ev::Trailers(crate::peer::header_map(&trailers)));
    }
    script.pending_pct = sim.pick(&[0u64, 30]);
    peer.push(script);
    sim.nontrivial();
    sim.sample(|| format!("foreign server -> client: {} fail={fail} trailers_only={trailers_only} head {} trailers {}", SHAPES[shape], md_summary(&head_md), md_summary(&trail_md)));
    let mut client = crate::rawsvc::raw_client::RawClient::new(peer.clone());
    let who = "foreign server -> caller";
    let fut = async {
        if shape == 0 {
            match client.unary(tonic::Request::new(RawMsg(Bytes::from_static(b"q")))).await {
                Ok(r) => {
                    // unary: headers and trailers are merged into the response metadata
                    check_md_received(sim, who, &head_md, r.metadata());
                    check_md_received(sim, who, &trail_md, r.metadata());
                    if fail {
                        sim.violation("C08/error-status-read-as-success", "peer failed the call, caller sees success".into());
                    }
                }
                Err(e) => {
                    if !fail {
                        sim.violation("C08/success-read-as-error", format!("peer succeeded, caller sees {:?} {:?}", e.code(), e.message()));
                    } else {
                        check_md_received(sim, who, &trail_md, e.metadata());
                        if !trailers_only {
                            // a unary call has no other place for them: the metadata of the response
                            // headers that preceded the error trailers is carried by the error status
                            sim.probe("unary-headers-then-error-trailers");
                            check_md_received(sim, "foreign server -> caller (initial metadata of a failed unary call)", &head_md, e.metadata());
                            if let Some(d) = crate::gen::md_mismatch(&head_md, e.metadata()) {
                                sim.violation("C02/status-metadata-differs", format!("failed unary call: the initial metadata the peer attached is not carried by the error: {d}"));
                            }
                        }
                    }
                }
            }
        } else {
            match client.server_stream(tonic::Request::new(RawMsg(Bytes::from_static(b"q")))).await {
                Err(e) => {
                    if !fail {
                        sim.violation("C08/success-read-as-error", format!("peer succeeded, caller sees {:?} {:?}", e.code(), e.message()));
                    } else {
                        check_md_received(sim, who, &trail_md, e.metadata());
                    }
                }
                Ok(r) => {
                    check_md_received(sim, who, &head_md, r.metadata());
                    let mut s = r.into_inner();
                    loop {
                        match s.message().await {
                            Ok(Some(_)) => {}
                            Ok(None) => {
                                match s.trailers().await {
                                    Ok(Some(t)) => check_md_received(sim, who, &trail_md, &t),
                                    Ok(None) => sim.violation("C08/trailing-metadata-lost", "stream ended cleanly but trailers() returned None".into()),
                                    Err(e) => sim.violation("C08/trailing-metadata-lost", format!("trailers() failed: {:?}", e.code())),
                                }
                                if fail {
                                    sim.violation("C08/error-status-read-as-success", "peer failed the call, caller sees a clean end".into());
                                }
                                break;
                            }
                            Err(e) => {
                                if !fail {
                                    sim.violation("C08/success-read-as-error", format!("peer succeeded, stream fails with {:?} {:?}", e.code(), e.message()));
                                } else {
                                    check_md_received(sim, who, &trail_md, e.metadata());
                                }
                                break;
                            }
                        }
                    }
                }
            }
        }
    };
    let mut fut = std::pin::pin!(fut);
    match drive(sim, fut.as_mut(), 2_000_000) {
        Drive::Done(()) => {}
        Drive::Hang { polls } => sim.violation("C08/lost-wakeup", format!("call Pending with no wake-up after {polls} polls")),
        Drive::Budget { polls } => sim.violation("C08/livelock", format!("call not finished after {polls} polls")),
        Drive::Stalled { .. } => {}
    }
}

/// A status that reaches tonic *inside an error chain* (behind `Error::source()` of wrapper errors
/// — a layer's error on the server, a transport or body error on the client) keeps its code,
/// message, details and every metadata entry: through `Status::from_error` and through the body
/// error path of the client's decoder.
pub fn run_status_in_chain(sim: &Sim, _idx: u64) {
    use crate::seams::{ErrKind, Ev, Segmented, SimBody};
    let spec = crate::gen::gen_status(sim, false);
    let depth = sim.range(1, 3) as u8;
    sim.nontrivial();
    sim.sample(|| format!("{} behind {depth} wrapper error(s)", spec.summary()));
    sim.ev(|| format!("config: {} behind {depth} wrapper(s)", spec.summary()));
    let err = ErrKind::Nested(spec.clone(), depth);
    let got: tonic::Status = if sim.chance(1, 2) {
        sim.probe("status-in-chain-via-from-error");
        tonic::Status::from_error(err.to_box())
    } else {
        sim.probe("status-in-chain-via-body-error");
        // some messages, then the body fails with the chained error
        let mut evs: Vec<Ev> = vec![];
        let n = sim.range(0, 2);
        for _ in 0..n {
            evs.push(Ev::Data(bytes::Bytes::from(crate::indep::frame(0, &sim.bytes(sim.range(0, 40) as usize)))));
        }
        evs.push(Ev::Err(err));
        let body = Segmented::new(SimBody::new(sim, "resp", evs, sim.pick(&[0u64, 30]), false));
        let dec = tonic::codec::Codec::decoder(&mut crate::rawcodec::RawCodec::default());
        let mut s = tonic::codec::Streaming::new_response(dec, body, http::StatusCode::OK, None, None);
        let mut terminal: Option<tonic::Status> = None;
        for _ in 0..8 {
            let fut = s.message();
            let mut fut = std::pin::pin!(fut);
            match simcore::drive(sim, fut.as_mut(), 100_000) {
                simcore::Drive::Done(Ok(Some(_))) => {}
                simcore::Drive::Done(Ok(None)) => break,
                simcore::Drive::Done(Err(e)) => {
                    terminal = Some(e);
                    break;
                }
                _ => return sim.violation("C08/status-in-chain-stream-stuck", "the stream neither ended nor failed".into()),
            }
        }
        match terminal {
            Some(e) => e,
            None => return sim.violation("C08/status-in-chain-lost", "the body failed with an error chain containing a Status; the stream ended cleanly".into()),
        }
    };
    crate::gen::check_status_received(sim, "status found in an error chain", &spec, &got);
    if let Some(d) = crate::gen::md_mismatch(&spec.md, got.metadata()) {
        sim.violation("C08/status-in-chain-metadata-differs", format!("status found behind {depth} wrapper(s): {d}"));
    }
}
