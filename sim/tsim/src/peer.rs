//! Engine-F foreign / hostile peers.
//!
//! * `PeerSvc` — a scripted *server* peer for tonic clients: records the request exactly as the
//!   client handed it to the transport and answers with scripted status, headers, body frames,
//!   trailers, errors (nothing here is tonic code).
//! * `raw_call` — a scripted *client* peer for tonic servers: hands a hand-built `http::Request`
//!   to a generated server and consumes the response the way an HTTP/2 stack would.

use crate::fdrive::{consume_body, BodyObs};
use crate::seams::{Ev, SimBody};
use bytes::Bytes;
use http::{HeaderMap, HeaderName, HeaderValue, Method, StatusCode, Uri, Version};
use http_body_util::BodyExt;
use simcore::{drive, Drive, Sim};
use std::collections::VecDeque;
use std::future::Future;
use std::pin::Pin;
use std::sync::{Arc, Mutex};
use std::task::{Context, Poll};

#[derive(Clone, Debug)]
pub struct PeerScript {
    pub status: u16,
    pub headers: Vec<(String, Vec<u8>)>,
    pub body: Vec<Ev>,
    pub pending_pct: u64,
    pub read_request: bool,
    pub end_hint: bool,
}

impl PeerScript {
    pub fn ok_grpc() -> PeerScript {
        PeerScript { status: 200, headers: vec![("content-type".into(), b"application/grpc".to_vec())], body: vec![], pending_pct: 0, read_request: true, end_hint: false }
    }
}

#[derive(Clone, Debug, Default)]
pub struct SeenReq {
    pub method: Option<Method>,
    pub uri: Option<Uri>,
    pub version: Option<Version>,
    pub headers: HeaderMap,
    pub body: Vec<u8>,
    pub trailers: Option<HeaderMap>,
    pub body_err: Option<String>,
}

#[derive(Clone)]
pub struct PeerSvc {
    pub sim: Sim,
    pub scripts: Arc<Mutex<VecDeque<PeerScript>>>,
    pub seen: Arc<Mutex<Vec<SeenReq>>>,
}

impl PeerSvc {
    pub fn new(sim: &Sim) -> PeerSvc {
        PeerSvc { sim: sim.clone(), scripts: Arc::new(Mutex::new(VecDeque::new())), seen: Arc::new(Mutex::new(vec![])) }
    }
    pub fn push(&self, s: PeerScript) {
        self.scripts.lock().unwrap().push_back(s);
    }
}

pub fn header_map(entries: &[(String, Vec<u8>)]) -> HeaderMap {
    let mut h = HeaderMap::new();
    for (k, v) in entries {
        let name = HeaderName::from_bytes(k.as_bytes()).expect("harness: header name");
        let val = HeaderValue::from_bytes(v).expect("harness: header value");
        h.append(name, val);
    }
    h
}

impl tower_service::Service<http::Request<tonic::body::Body>> for PeerSvc {
    type Response = http::Response<SimBody>;
    type Error = std::convert::Infallible;
    type Future = Pin<Box<dyn Future<Output = Result<Self::Response, Self::Error>> + Send>>;

    fn poll_ready(&mut self, _cx: &mut Context<'_>) -> Poll<Result<(), Self::Error>> {
        Poll::Ready(Ok(()))
    }

    fn call(&mut self, req: http::Request<tonic::body::Body>) -> Self::Future {
        let script = self.scripts.lock().unwrap().pop_front().unwrap_or_else(PeerScript::ok_grpc);
        let sim = self.sim.clone();
        let seen = self.seen.clone();
        Box::pin(async move {
            let (parts, mut body) = req.into_parts();
            let mut s = SeenReq { method: Some(parts.method.clone()), uri: Some(parts.uri.clone()), version: Some(parts.version), headers: parts.headers.clone(), ..Default::default() };
            sim.ev(|| format!("peer: request {} {} {:?} headers {:?}", parts.method, parts.uri, parts.version, parts.headers));
            if script.read_request {
                loop {
                    match body.frame().await {
                        None => break,
                        Some(Ok(f)) => {
                            if f.is_data() {
                                s.body.extend_from_slice(&f.into_data().unwrap());
                            } else if f.is_trailers() {
                                s.trailers = Some(f.into_trailers().unwrap());
                            }
                        }
                        Some(Err(e)) => {
                            s.body_err = Some(format!("{:?}: {}", e.code(), e.message()));
                            break;
                        }
                    }
                }
                sim.ev(|| format!("peer: request body {}B trailers {:?} err {:?}", s.body.len(), s.trailers, s.body_err));
            }
            seen.lock().unwrap().push(s);
            let mut resp = http::Response::new(SimBody::new(&sim, "peer-resp", script.body.clone(), script.pending_pct, script.end_hint));
            *resp.status_mut() = StatusCode::from_u16(script.status).expect("harness: status");
            *resp.version_mut() = Version::HTTP_2;
            *resp.headers_mut() = header_map(&script.headers);
            sim.ev(|| format!("peer: response {} headers {:?} body events {}", script.status, resp.headers(), script.body.len()));
            Ok(resp)
        })
    }
}

#[derive(Debug)]
pub struct RawResp {
    pub status: StatusCode,
    pub version: Version,
    pub headers: HeaderMap,
    pub body: BodyObs,
}

/// Hand a hand-built request to a tonic server service and consume the response.
/// Returns None (after recording a violation of the given namespace) on hang / livelock.
pub fn raw_call<S>(sim: &Sim, ns: &str, server: &mut S, method: Method, path: &str, headers: &[(String, Vec<u8>)], body: Vec<Ev>, pending_pct: u64) -> Option<RawResp>
where
    S: tower_service::Service<http::Request<SimBody>, Response = http::Response<tonic::body::Body>, Error = std::convert::Infallible>,
{
    let mut req = http::Request::new(SimBody::new(sim, "raw-req", body, pending_pct, false));
    *req.method_mut() = method;
    *req.uri_mut() = path.parse::<Uri>().expect("harness: uri");
    *req.version_mut() = Version::HTTP_2;
    *req.headers_mut() = header_map(headers);
    sim.ev(|| format!("raw client: {} {} headers {:?}", req.method(), req.uri(), req.headers()));
    let fut = server.call(req);
    let mut fut = std::pin::pin!(fut);
    let resp = match drive(sim, fut.as_mut(), 2_000_000) {
        Drive::Done(Ok(r)) => r,
        Drive::Done(Err(e)) => match e {},
        Drive::Hang { polls } => {
            sim.violation(&format!("{ns}/lost-wakeup"), format!("server call future Pending with no wake-up after {polls} polls"));
            return None;
        }
        Drive::Stalled { .. } => return None,
        Drive::Budget { polls } => {
            sim.violation(&format!("{ns}/livelock"), format!("server call future not finished after {polls} polls"));
            return None;
        }
    };
    let (parts, body) = resp.into_parts();
    sim.ev(|| format!("raw client: response {} headers {:?}", parts.status, parts.headers));
    let mut b: Pin<Box<dyn http_body::Body<Data = Bytes, Error = tonic::Status>>> = Box::pin(body);
    let obs = consume_body(sim, &mut b, 0);
    match obs.ended_by {
        "hang" => {
            sim.violation(&format!("{ns}/lost-wakeup"), "response body Pending with no wake-up".into());
            return None;
        }
        "livelock" => {
            sim.violation(&format!("{ns}/livelock"), "response body never finished".into());
            return None;
        }
        _ => {}
    }
    Some(RawResp { status: parts.status, version: parts.version, headers: parts.headers, body: obs })
}

/// grpc-status as a raw peer reads it: from the trailers block if any, else from the headers.
pub fn wire_status(r: &RawResp) -> Option<(i32, String)> {
    let from = |h: &HeaderMap| -> Option<(i32, String)> {
        let c = h.get("grpc-status")?.to_str().ok()?.parse::<i32>().ok()?;
        let m = h.get("grpc-message").map(|v| String::from_utf8_lossy(&crate::indep::percent_decode(v.as_bytes())).into_owned()).unwrap_or_default();
        Some((c, m))
    };
    if let Some(t) = r.body.trailers().first() {
        if let Some(x) = from(t) {
            return Some(x);
        }
    }
    from(&r.headers)
}
