//! C05 — compression is used only as negotiated and configured.  Engine F.
//! Two independently configured tonic parties over the loopback (complete configuration grid
//! first, then random), a foreign/hostile client peer against a tonic server, and a foreign/hostile
//! server peer against a tonic client.  Oracle: a reference negotiation function.

use crate::c02::{self, CallPlan, CompCfg};
use crate::gen::StatusSpec;
use crate::handlers::{Handler, Script};
use crate::indep::{self, Enc, ALL_ENC};
use crate::loopback::Loopback;
use crate::peer::{raw_call, wire_status, PeerScript, PeerSvc};
use crate::rawcodec::RawMsg;
use crate::seams::Ev;
use bytes::Bytes;
use http::HeaderMap;
use simcore::{drive, Drive, Sim};
use tonic::Code;

pub const GRID: u64 = 8 * 8 * 4 * 8 * 4;

fn mask_to_vec(sim: &Sim, m: u64) -> Vec<Enc> {
    let mut v: Vec<Enc> = ALL_ENC.iter().copied().enumerate().filter(|(i, _)| m & (1 << i) != 0).map(|(_, e)| e).collect();
    // enable order is part of the configuration
    if v.len() > 1 {
        let r = sim.draw(v.len() as u64) as usize;
        v.rotate_left(r);
        if sim.chance(1, 2) {
            v.reverse();
        }
    }
    // an application may enable the same encoding more than once (defaults, then per-service
    // settings): it is enabled, that is all
    if !v.is_empty() && sim.chance(1, 4) {
        let dup = v[sim.draw(v.len() as u64) as usize];
        v.insert(sim.draw(v.len() as u64 + 1) as usize, dup);
        if sim.chance(1, 2) {
            v.insert(0, dup);
        }
    }
    v
}

/// Tokens of a grpc-accept-encoding value as the spec reads it: comma separated, trimmed.
fn tokens(h: &HeaderMap, name: &str) -> Option<Vec<String>> {
    let mut out = vec![];
    let mut any = false;
    for v in h.get_all(name).iter() {
        any = true;
        match v.to_str() {
            Ok(s) => out.extend(s.split(',').map(|t| t.trim().to_string())),
            Err(_) => return Some(vec!["<non-ascii>".into()]),
        }
    }
    if any {
        Some(out)
    } else {
        None
    }
}

fn set_minus_identity(toks: &[String]) -> Vec<String> {
    let mut v: Vec<String> = toks.iter().filter(|t| t.as_str() != "identity" && !t.is_empty()).cloned().collect();
    v.sort();
    v.dedup();
    v
}

fn names(v: &[Enc]) -> Vec<String> {
    let mut n: Vec<String> = v.iter().map(|e| e.name().to_string()).collect();
    n.sort();
    n.dedup();
    n
}

fn announced(h: &HeaderMap) -> Result<Option<Enc>, String> {
    match h.get("grpc-encoding") {
        None => Ok(None),
        Some(v) => match v.to_str() {
            Ok("identity") => Ok(None),
            Ok(s) => Enc::from_name(s).map(Some).ok_or_else(|| format!("unknown encoding {s:?} announced")),
            Err(_) => Err("non-ASCII grpc-encoding announced".into()),
        },
    }
}

fn v5(sim: &Sim, class: &str, detail: String) {
    sim.violation(&format!("C05/{class}"), detail);
}

fn compressible(sim: &Sim) -> Vec<u8> {
    let n = sim.range(0, 3000) as usize;
    let mut v = sim.bytes(n.min(64));
    v.resize(n, b'a');
    v
}

pub fn run_grid(sim: &Sim, idx: u64) {
    let cell = if idx < GRID { idx } else { sim.draw(GRID) };
    let sa = cell % 8;
    let ss = (cell / 8) % 8;
    let cs = (cell / 64) % 4;
    let ca = (cell / 256) % 8;
    let shape_cell = ((cell / 2048) % 4) as usize;
    let cfg = CompCfg {
        server_accept: mask_to_vec(sim, sa),
        server_send: mask_to_vec(sim, ss),
        client_send: if cs == 0 { None } else { Some(ALL_ENC[cs as usize - 1]) },
        client_accept: mask_to_vec(sim, ca),
    };
    // all four call shapes: each goes through its own server::Grpc entry point
    let shape = shape_cell;
    let nresp = if shape >= 2 { sim.range(1, 3) } else { 1 };
    let nreq = if shape == 1 || shape == 3 { sim.range(1, 2) } else { 1 };
    let plan = CallPlan {
        id: 1,
        shape,
        req_md: vec![],
        req_msgs: (0..nreq).map(|_| compressible(sim)).collect(),
        tag: 0,
        script: Script { msgs: (0..nresp).map(|_| compressible(sim)).collect(), disable_compression: shape <= 1 && sim.chance(1, 4), /* documented: no effect on response streams */ src_pending: sim.pick(&[0u64, 30]), ..Default::default() },
        req_src_pending: 0,
        extra_polls: 0,
        early_trailers_after: None,
        ping_pong: false,
    };
    sim.nontrivial();
    sim.sample(|| format!("grid cell {cell}: {:?} shape={} disable_compression={}", cfg, c02::SHAPES[shape], plan.script.disable_compression));
    sim.ev(|| format!("config: cell {cell} {:?} shape={} disable_compression={}", cfg, c02::SHAPES[shape], plan.script.disable_compression));
    c02::draw_client_clone_mode(sim);
    let handler = Handler::new(sim);
    // a forwarding handler that re-uses upstream response metadata: `grpc-encoding` is not a
    // reserved name, but when the server negotiates an encoding itself the announced one must be
    // the one the body is really compressed with (only drawn when one will be negotiated: with
    // nothing negotiated the header is simply the user's)
    let mut hscript = plan.script.clone();
    if cfg.server_send.iter().any(|e| cfg.client_accept.contains(e)) && sim.chance(1, 4) {
        let forged = sim.pick(&["identity", "gzip", "deflate", "zstd"]);
        hscript.initial_md.push(crate::gen::MdEntry { key: "grpc-encoding".into(), bin: false, val: forged.as_bytes().to_vec(), reserved: false, key_case: 0, replace: false, superseded: false });
        sim.fault("handler-metadata-carries-grpc-encoding");
        sim.ev(|| format!("config: handler's response metadata carries grpc-encoding: {forged}"));
    }
    handler.add_script(1, hscript);
    let server = c02::configure!(crate::rawsvc::raw_server::RawServer::new(handler.clone()), cfg, server);
    let lb = Loopback::new(sim, server);
    let tap = lb.tap.clone();
    let mut client = c02::configure!(crate::rawsvc::raw_client::RawClient::new(lb), cfg, client);
    let obs = {
        let fut = c02::perform::<RawMsg, _>(sim, &mut client, &plan);
        let mut fut = std::pin::pin!(fut);
        match drive(sim, fut.as_mut(), 2_000_000) {
            Drive::Done(o) => o,
            Drive::Hang { polls } => return v5(sim, "lost-wakeup", format!("call Pending with no wake-up after {polls} polls")),
            Drive::Budget { polls } => return v5(sim, "livelock", format!("call not finished after {polls} polls")),
            Drive::Stalled { .. } => return,
        }
    };
    let tap = tap.lock().unwrap();
    let Some(rec) = tap.first() else {
        return v5(sim, "no-request-on-wire", "the client never handed a request to the transport".into());
    };
    let (_, _, _, reqh) = rec.req_head.as_ref().unwrap();

    // ---- client: compresses with exactly what it was told to send, advertises exactly what it accepts
    match (announced(reqh), cfg.client_send) {
        (Ok(a), s) if a == s => {}
        (a, s) => v5(sim, "client-request-encoding-not-as-configured", format!("client configured to send {s:?}, request announces {a:?}")),
    }
    let (frames, _) = indep::parse_frames(&rec.req.data);
    for (i, f) in frames.iter().enumerate() {
        let want_flag = cfg.client_send.is_some() as u8;
        if f.flag != want_flag {
            v5(sim, "client-request-compression-not-as-configured", format!("request message {i}: flag {}, client configured to send {:?}", f.flag, cfg.client_send));
        } else if let Some(e) = cfg.client_send {
            if indep::inflate(e, &f.payload, 1 << 20).ok().as_deref() != plan.req_msgs.get(i).map(|m| &m[..]) {
                v5(sim, "client-request-compression-not-as-configured", format!("request message {i} does not inflate with {} to the message sent", e.name()));
            }
        }
    }
    match tokens(reqh, "grpc-accept-encoding") {
        None => {
            if !cfg.client_accept.is_empty() {
                v5(sim, "client-accept-advertisement-wrong", format!("client accepts {:?} but sends no grpc-accept-encoding", cfg.client_accept));
            }
        }
        Some(t) => {
            if set_minus_identity(&t) != names(&cfg.client_accept) {
                v5(sim, "client-accept-advertisement-wrong", format!("client accepts {:?} but advertises {:?}", cfg.client_accept, t));
            }
        }
    }

    // ---- server
    let entered = !handler.entered().is_empty();
    let (_, _, resph) = rec.resp_head.as_ref().unwrap();
    let refused = matches!(cfg.client_send, Some(e) if !cfg.server_accept.contains(&e));
    if refused {
        sim.probe("request-encoding-refused");
        if entered {
            v5(sim, "handler-invoked-for-refused-encoding", format!("request compressed with {:?}, server accepts {:?}", cfg.client_send, cfg.server_accept));
        }
        match &obs.call_err {
            Some(e) if e.code() == Code::Unimplemented => {}
            other => v5(sim, "unsupported-request-encoding-not-unimplemented", format!("request compressed with {:?}, server accepts {:?}: caller sees {:?}", cfg.client_send, cfg.server_accept, other.as_ref().map(|e| (e.code(), e.message().to_string())))),
        }
        let adv = tokens(resph, "grpc-accept-encoding").or_else(|| rec.resp.trailers.first().and_then(|t| tokens(t, "grpc-accept-encoding"))).unwrap_or_default();
        if set_minus_identity(&adv) != names(&cfg.server_accept) {
            v5(sim, "refusal-does-not-list-enabled-encodings", format!("server accepts {:?}, refusal advertises {:?}", cfg.server_accept, adv));
        }
        return;
    }
    if !entered {
        v5(sim, "acceptable-request-refused", format!("request encoding {:?} is enabled ({:?}) but the handler was not invoked; caller sees {:?}", cfg.client_send, cfg.server_accept, obs.call_err.as_ref().map(|e| (e.code(), e.message().to_string()))));
        return;
    }
    let chosen = match announced(resph) {
        Ok(c) => c,
        Err(e) => return v5(sim, "response-encoding-header-wrong", e),
    };
    let offered: Vec<Enc> = cfg.client_accept.clone();
    if let Some(c) = chosen {
        sim.probe("response-compressed");
        if !cfg.server_send.contains(&c) {
            v5(sim, "response-encoding-not-configured-for-send", format!("server configured to send {:?}, client offers {:?}, response announces {}", cfg.server_send, offered, c.name()));
        }
        if !offered.contains(&c) {
            v5(sim, "response-encoding-not-offered", format!("client offers {:?}, response announces {}", offered, c.name()));
        }
    } else if cfg.server_send.iter().any(|e| offered.contains(e)) {
        sim.probe("server-could-compress-but-sent-identity");
    }
    let (rframes, _) = indep::parse_frames(&rec.resp.data);
    for (i, f) in rframes.iter().enumerate() {
        if f.flag == 1 {
            match chosen {
                None => v5(sim, "compressed-flag-without-negotiated-encoding", format!("response message {i} flagged compressed, no grpc-encoding announced")),
                Some(c) => {
                    if indep::inflate(c, &f.payload, 1 << 20).is_err() {
                        v5(sim, "payload-not-compressed-with-announced-encoding", format!("response message {i} does not inflate as {}", c.name()));
                    }
                }
            }
        }
    }
    if plan.script.disable_compression && rframes.iter().any(|f| f.flag == 1) {
        v5(sim, "per-response-opt-out-ignored", "handler disabled compression for this response but a frame is flagged compressed".into());
    }
    // the call itself must succeed with the true messages (negotiation is consistent here)
    if chosen.map(|c| offered.contains(&c)).unwrap_or(true) {
        c02::judge::<RawMsg>(sim, &plan, &obs, handler.log(1).as_ref());
    }
}

// ------------------------------------------------------------------------------------------------

fn gen_accept_header(sim: &Sim) -> Option<Vec<u8>> {
    if sim.chance(1, 8) {
        return None;
    }
    const TOK: &[&str] = &["gzip", "deflate", "zstd", "identity", "br", "snappy", "GZIP", "Gzip", "", "gzip;q=1", "zstd ", " deflate", "x-gzip", "*"];
    let n = sim.range(0, 5);
    let mut s: Vec<u8> = vec![];
    for i in 0..n {
        if i > 0 {
            s.extend_from_slice(sim.pick(&[",", ", ", " ,", " , ", ",,"]).as_bytes());
        }
        s.extend_from_slice(sim.pick(TOK).as_bytes());
    }
    if sim.chance(1, 12) {
        s.push(0xe9); // obs-text byte: legal in a header value, not ASCII
    }
    // HTTP/2 field values carry no leading/trailing whitespace
    while s.first() == Some(&b' ') {
        s.remove(0);
    }
    while s.last() == Some(&b' ') {
        s.pop();
    }
    Some(s)
}

/// Foreign / hostile client peer against a tonic server.
pub fn run_hostile_request(sim: &Sim, _idx: u64) {
    let cfg = CompCfg { server_accept: mask_to_vec(sim, sim.draw(8)), server_send: mask_to_vec(sim, sim.draw(8)), client_send: None, client_accept: vec![] };
    let handler = Handler::new(sim);
    let resp_msg = compressible(sim);
    handler.add_script(1, Script { msgs: vec![resp_msg.clone()], ..Default::default() });
    let mut server = c02::configure!(crate::rawsvc::raw_server::RawServer::new(handler.clone()), cfg, server);
    let accept_hdr = gen_accept_header(sim);
    // grpc-encoding of the request
    let enc_hdr: Option<Vec<u8>> = match sim.weighted(&[4, 4, 1, 1, 1]) {
        0 => None,
        1 => Some(sim.pick(&ALL_ENC).name().as_bytes().to_vec()),
        2 => Some(b"identity".to_vec()),
        3 => Some(sim.pick(&["br", "GZIP", "gzip ", "snappy", "", "gzip,deflate", "x"]).trim_end().as_bytes().to_vec()),
        _ => Some(vec![0xff, 0xfe]),
    };
    let named: Option<Enc> = enc_hdr.as_ref().and_then(|v| std::str::from_utf8(v).ok()).and_then(Enc::from_name);
    let msg = compressible(sim);
    // frame: flag 1 with a payload compressed with the named encoding (or gzip when none is named)
    let flag1 = sim.chance(1, 2);
    // (with no encoding named, the flagged payload is also an empty one — `01 00 00 00 00`, what a
    // peer that always sets the flag sends for an empty message — or the plain serialization)
    let no_enc_named = enc_hdr.is_none() || enc_hdr.as_deref() == Some(b"identity");
    let frame = if flag1 {
        match if no_enc_named { sim.draw(3) } else { 2 } {
            0 => {
                sim.probe("flagged-empty-payload-without-encoding");
                indep::frame(1, &[])
            }
            1 => indep::frame(1, &msg),
            _ => indep::frame(1, &indep::compress(named.unwrap_or(Enc::Gzip), &msg)),
        }
    } else {
        indep::frame(0, &msg)
    };
    let mut headers: Vec<(String, Vec<u8>)> = vec![("content-type".into(), b"application/grpc".to_vec()), ("te".into(), b"trailers".to_vec()), ("sim-call".into(), b"1".to_vec())];
    if let Some(a) = &accept_hdr {
        headers.push(("grpc-accept-encoding".into(), a.clone()));
    }
    if let Some(e) = &enc_hdr {
        headers.push(("grpc-encoding".into(), e.clone()));
    }
    sim.nontrivial();
    sim.sample(|| format!("hostile request: server {:?}/{:?}; grpc-accept-encoding={:?} grpc-encoding={:?} flag={}", cfg.server_accept, cfg.server_send, accept_hdr.as_ref().map(|a| String::from_utf8_lossy(a).into_owned()), enc_hdr.as_ref().map(|a| String::from_utf8_lossy(a).into_owned()), flag1 as u8));
    sim.ev(|| format!("config: server accept {:?} send {:?}", cfg.server_accept, cfg.server_send));
    let chunks = crate::seams::cut_bytes(sim, &frame, &[0]);
    let shape = sim.draw(4) as usize;
    let path = format!("/sim.Raw/{}", c02::SHAPES[shape]);
    let Some(resp) = raw_call(sim, "C05", &mut server, http::Method::POST, &path, &headers, chunks.into_iter().map(Ev::Data).collect(), sim.pick(&[0u64, 30])) else {
        return;
    };
    let entered = !handler.entered().is_empty();
    let st = wire_status(&resp);
    // ---- request side verdict
    let is_identity = enc_hdr.is_none() || enc_hdr.as_deref() == Some(b"identity");
    let acceptable = is_identity || matches!(named, Some(e) if cfg.server_accept.contains(&e));
    if !acceptable {
        sim.probe("request-encoding-refused");
        if entered {
            v5(sim, "handler-invoked-for-refused-encoding", format!("grpc-encoding {:?}, server accepts {:?}", enc_hdr.as_ref().map(|a| String::from_utf8_lossy(a).into_owned()), cfg.server_accept));
        }
        if st.as_ref().map(|s| s.0) != Some(Code::Unimplemented as i32) {
            v5(sim, "unsupported-request-encoding-not-unimplemented", format!("grpc-encoding {:?}, server accepts {:?}: status {:?}", enc_hdr.as_ref().map(|a| String::from_utf8_lossy(a).into_owned()), cfg.server_accept, st));
        }
        let adv = tokens(&resp.headers, "grpc-accept-encoding").or_else(|| resp.body.trailers().first().and_then(|t| tokens(t, "grpc-accept-encoding"))).unwrap_or_default();
        if set_minus_identity(&adv) != names(&cfg.server_accept) {
            v5(sim, "refusal-does-not-list-enabled-encodings", format!("server accepts {:?}, refusal advertises {:?}", cfg.server_accept, adv));
        }
        return;
    }
    if flag1 && is_identity {
        sim.probe("compressed-flag-without-encoding");
        // (a streaming handler is entered before it reads the offending message; it must not *receive* it)
        let received = handler.log(1).map(|l| l.msgs.len()).unwrap_or(0);
        if (entered && (shape == 0 || shape == 2)) || received > 0 {
            v5(sim, "handler-invoked-for-ill-flagged-message", "message flagged compressed with no grpc-encoding reached the handler".into());
        }
        if st.as_ref().map(|s| s.0) != Some(Code::Internal as i32) {
            v5(sim, "compressed-flag-without-encoding-not-internal", format!("status {:?}", st));
        }
        return;
    }
    // acceptable request: the handler must have received the message
    match handler.log(1) {
        Some(l) if l.msgs == vec![msg.clone()] => {}
        other => v5(sim, "acceptable-request-not-delivered", format!("handler log {:?}, status {:?}", other.map(|l| l.msgs.iter().map(|m| m.len()).collect::<Vec<_>>()), st)),
    }
    // ---- response side: chosen ∈ send ∩ offered
    let chosen = match announced(&resp.headers) {
        Ok(c) => c,
        Err(e) => return v5(sim, "response-encoding-header-wrong", e),
    };
    let offered: Vec<Enc> = accept_hdr.as_ref().and_then(|a| std::str::from_utf8(a).ok()).map(|s| s.split(',').filter_map(|t| Enc::from_name(t.trim())).collect()).unwrap_or_default();
    if let Some(c) = chosen {
        sim.probe("response-compressed");
        if !cfg.server_send.contains(&c) {
            v5(sim, "response-encoding-not-configured-for-send", format!("server configured to send {:?}, peer offers {:?}, response announces {}", cfg.server_send, accept_hdr.as_ref().map(|a| String::from_utf8_lossy(a).into_owned()), c.name()));
        }
        if !offered.contains(&c) {
            v5(sim, "response-encoding-not-offered", format!("peer offers {:?}, response announces {}", accept_hdr.as_ref().map(|a| String::from_utf8_lossy(a).into_owned()), c.name()));
        }
    }
    let data = resp.body.data();
    let (frames, _) = indep::parse_frames(&data);
    for (i, f) in frames.iter().enumerate() {
        let ser = if f.flag == 1 {
            match chosen {
                None => {
                    v5(sim, "compressed-flag-without-negotiated-encoding", format!("response message {i} flagged compressed, no grpc-encoding announced"));
                    continue;
                }
                Some(c) => match indep::inflate(c, &f.payload, 1 << 20) {
                    Ok(s) => s,
                    Err(_) => {
                        v5(sim, "payload-not-compressed-with-announced-encoding", format!("response message {i} does not inflate as {}", c.name()));
                        continue;
                    }
                },
            }
        } else {
            f.payload.clone()
        };
        if ser != resp_msg {
            v5(sim, "response-message-differs", format!("response message {i}: {}B, handler produced {}B", ser.len(), resp_msg.len()));
        }
    }
}

/// Foreign / hostile server peer against a tonic client.
pub fn run_hostile_response(sim: &Sim, _idx: u64) {
    let client_accept = mask_to_vec(sim, sim.draw(8));
    // what the client *sends* with says nothing about what it accepts
    let client_send: Option<Enc> = if sim.chance(1, 2) { Some(sim.pick(&ALL_ENC)) } else { None };
    let cfg = CompCfg { server_accept: vec![], server_send: vec![], client_send, client_accept: client_accept.clone() };
    let peer = PeerSvc::new(sim);
    let enc_hdr: Option<Vec<u8>> = match sim.weighted(&[3, 5, 1, 1, 1]) {
        // the peer answers in the encoding the client sent with (offered or not)
        1 if client_send.is_some() && sim.chance(1, 2) => Some(client_send.unwrap().name().as_bytes().to_vec()),
        0 => None,
        1 => Some(sim.pick(&ALL_ENC).name().as_bytes().to_vec()),
        2 => Some(b"identity".to_vec()),
        3 => Some(sim.pick(&["br", "GZIP", "snappy", "", "gzip,deflate"]).as_bytes().to_vec()),
        _ => Some(vec![0xff]),
    };
    let named: Option<Enc> = enc_hdr.as_ref().and_then(|v| std::str::from_utf8(v).ok()).and_then(Enc::from_name);
    let msg = compressible(sim);
    let flag1 = sim.chance(1, 2);
    // (with no encoding named, the flagged payload is also an empty one — `01 00 00 00 00`, what a
    // peer that always sets the flag sends for an empty message — or the plain serialization)
    let no_enc_named = enc_hdr.is_none() || enc_hdr.as_deref() == Some(b"identity");
    let frame = if flag1 {
        match if no_enc_named { sim.draw(3) } else { 2 } {
            0 => {
                sim.probe("flagged-empty-payload-without-encoding");
                indep::frame(1, &[])
            }
            1 => indep::frame(1, &msg),
            _ => indep::frame(1, &indep::compress(named.unwrap_or(Enc::Gzip), &msg)),
        }
    } else {
        indep::frame(0, &msg)
    };
    let mut script = PeerScript::ok_grpc();
    if let Some(e) = &enc_hdr {
        script.headers.push(("grpc-encoding".into(), e.clone()));
    }
    let mut t = HeaderMap::new();
    t.insert("grpc-status", "0".parse().unwrap());
    script.body = crate::seams::cut_bytes(sim, &frame, &[0]).into_iter().map(Ev::Data).collect();
    script.body.push(Ev::Trailers(t));
    script.pending_pct = sim.pick(&[0u64, 30]);
    peer.push(script);
    sim.nontrivial();
    sim.sample(|| format!("hostile response: client sends {client_send:?} accepts {:?}; grpc-encoding={:?} flag={}", client_accept, enc_hdr.as_ref().map(|a| String::from_utf8_lossy(a).into_owned()), flag1 as u8));
    sim.ev(|| format!("config: client accepts {:?}", client_accept));
    let mut client = c02::configure!(crate::rawsvc::raw_client::RawClient::new(peer.clone()), cfg, client);
    let fut = client.unary(tonic::Request::new(RawMsg(Bytes::from_static(b"ping"))));
    let mut fut = std::pin::pin!(fut);
    let res = match drive(sim, fut.as_mut(), 2_000_000) {
        Drive::Done(r) => r,
        Drive::Hang { polls } => return v5(sim, "lost-wakeup", format!("call Pending with no wake-up after {polls} polls")),
        Drive::Budget { polls } => return v5(sim, "livelock", format!("call not finished after {polls} polls")),
        Drive::Stalled { .. } => return,
    };
    let is_identity = enc_hdr.is_none() || enc_hdr.as_deref() == Some(b"identity");
    let acceptable = is_identity || matches!(named, Some(e) if client_accept.contains(&e));
    let show = |r: &Result<tonic::Response<RawMsg>, tonic::Status>| match r {
        Ok(m) => format!("Ok({}B)", m.get_ref().0.len()),
        Err(e) => format!("Err({:?}, {:?})", e.code(), e.message()),
    };
    if !acceptable {
        sim.probe("response-encoding-refused");
        match &res {
            Err(e) if e.code() == Code::Unimplemented => {}
            other => v5(sim, "unsupported-response-encoding-not-unimplemented", format!("response grpc-encoding {:?}, client accepts {:?}: caller sees {}", enc_hdr.as_ref().map(|a| String::from_utf8_lossy(a).into_owned()), client_accept, show(other))),
        }
        return;
    }
    if flag1 && is_identity {
        sim.probe("compressed-flag-without-encoding");
        match &res {
            Err(e) if e.code() == Code::Internal => {}
            other => v5(sim, "compressed-flag-without-encoding-not-internal", format!("caller sees {}", show(other))),
        }
        return;
    }
    match &res {
        Ok(m) if m.get_ref().0[..] == msg[..] => {}
        other => v5(sim, "acceptable-response-not-delivered", format!("response grpc-encoding {:?} flag {} acceptable for {:?}: caller sees {}", enc_hdr.as_ref().map(|a| String::from_utf8_lossy(a).into_owned()), flag1 as u8, client_accept, show(other))),
    }
    let _ = StatusSpec { code: Code::Ok, msg: String::new(), details: vec![], md: vec![] };
}
