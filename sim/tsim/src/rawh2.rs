//! Raw HTTP/2 peers written directly on the `h2` crate (no tonic, no hyper): the independent
//! observer of what tonic puts on the wire and the foreign / hostile party in engine N.

use bytes::Bytes;
use http::{HeaderMap, Method, StatusCode, Uri};
use simcore::Sim;
use simnet::SimStream;
use std::sync::{Arc, Mutex};
use tokio::sync::mpsc::UnboundedReceiver;

#[derive(Clone, Debug, Default)]
pub struct ReqRecord {
    pub method: Option<Method>,
    pub uri: Option<Uri>,
    pub headers: HeaderMap,
    pub body: Vec<u8>,
    pub data_frames: usize,
    pub trailers: Option<HeaderMap>,
    pub body_error: Option<String>,
    pub end_stream_seen: bool,
}

#[derive(Clone, Debug)]
pub enum RespStep {
    /// response head; `end` = END_STREAM on HEADERS (trailers-only style)
    Head { status: u16, headers: Vec<(String, Vec<u8>)>, end: bool },
    Data { bytes: Vec<u8>, end: bool },
    Trailers(Vec<(String, Vec<u8>)>),
    Reset(u32),
    /// wait in virtual time
    Sleep(u64),
}

#[derive(Clone, Debug, Default)]
pub struct RawScript {
    pub read_request_first: bool,
    pub steps: Vec<RespStep>,
}

fn hm(entries: &[(String, Vec<u8>)]) -> HeaderMap {
    crate::peer::header_map(entries)
}

/// Raw server: every request on every connection is recorded and answered with the next script
/// (or a default OK unary answer).
pub fn spawn_raw_server(sim: &Sim, mut rx: UnboundedReceiver<SimStream>, scripts: Arc<Mutex<Vec<RawScript>>>, seen: Arc<Mutex<Vec<ReqRecord>>>) {
    let sim = sim.clone();
    tokio::spawn(async move {
        while let Some(io) = rx.recv().await {
            let (sim, scripts, seen) = (sim.clone(), scripts.clone(), seen.clone());
            tokio::spawn(async move {
                let mut conn = match h2::server::handshake(io).await {
                    Ok(c) => c,
                    Err(e) => {
                        sim.ev(|| format!("raw server: handshake failed: {e}"));
                        return;
                    }
                };
                while let Some(r) = conn.accept().await {
                    let (req, mut respond) = match r {
                        Ok(x) => x,
                        Err(e) => {
                            sim.ev(|| format!("raw server: accept error: {e}"));
                            break;
                        }
                    };
                    let script = {
                        let mut s = scripts.lock().unwrap();
                        if s.is_empty() {
                            RawScript { read_request_first: true, steps: vec![RespStep::Head { status: 200, headers: vec![("content-type".into(), b"application/grpc".to_vec())], end: false }, RespStep::Data { bytes: vec![0, 0, 0, 0, 0], end: false }, RespStep::Trailers(vec![("grpc-status".into(), b"0".to_vec())])] }
                        } else {
                            s.remove(0)
                        }
                    };
                    let (sim, seen) = (sim.clone(), seen.clone());
                    tokio::spawn(async move {
                        let (parts, mut body) = req.into_parts();
                        let mut rec = ReqRecord { method: Some(parts.method.clone()), uri: Some(parts.uri.clone()), headers: parts.headers.clone(), ..Default::default() };
                        sim.ev(|| format!("raw server: {} {} headers {:?}", parts.method, parts.uri, parts.headers));
                        let idx = {
                            let mut s = seen.lock().unwrap();
                            s.push(rec.clone());
                            s.len() - 1
                        };
                        if script.read_request_first {
                            loop {
                                match body.data().await {
                                    Some(Ok(d)) => {
                                        let _ = body.flow_control().release_capacity(d.len());
                                        rec.body.extend_from_slice(&d);
                                        rec.data_frames += 1;
                                    }
                                    Some(Err(e)) => {
                                        rec.body_error = Some(e.to_string());
                                        break;
                                    }
                                    None => break,
                                }
                            }
                            if rec.body_error.is_none() {
                                match body.trailers().await {
                                    Ok(t) => rec.trailers = t,
                                    Err(e) => rec.body_error = Some(e.to_string()),
                                }
                                rec.end_stream_seen = body.is_end_stream();
                            }
                            seen.lock().unwrap()[idx] = rec.clone();
                        }
                        let mut stream: Option<h2::SendStream<Bytes>> = None;
                        for st in script.steps {
                            match st {
                                RespStep::Sleep(us) => tokio::time::sleep(std::time::Duration::from_micros(us)).await,
                                RespStep::Head { status, headers, end } => {
                                    let mut resp = http::Response::new(());
                                    *resp.status_mut() = StatusCode::from_u16(status).unwrap();
                                    *resp.headers_mut() = hm(&headers);
                                    match respond.send_response(resp, end) {
                                        Ok(s) => stream = Some(s),
                                        Err(_) => break,
                                    }
                                }
                                RespStep::Data { bytes, end } => {
                                    if let Some(s) = stream.as_mut() {
                                        // ignore flow control subtleties: reserve and send in one go
                                        s.reserve_capacity(bytes.len());
                                        let mut rest = Bytes::from(bytes);
                                        while !rest.is_empty() {
                                            let cap = std::future::poll_fn(|cx| s.poll_capacity(cx)).await;
                                            match cap {
                                                Some(Ok(n)) if n > 0 => {
                                                    let chunk = rest.split_to(n.min(rest.len()));
                                                    let last = rest.is_empty();
                                                    if s.send_data(chunk, end && last).is_err() {
                                                        break;
                                                    }
                                                    if !rest.is_empty() {
                                                        s.reserve_capacity(rest.len());
                                                    }
                                                }
                                                _ => break,
                                            }
                                        }
                                        if rest.is_empty() && end {
                                            // zero-length final frame when bytes were empty
                                        }
                                    }
                                }
                                RespStep::Trailers(t) => {
                                    if let Some(s) = stream.as_mut() {
                                        let _ = s.send_trailers(hm(&t));
                                    }
                                }
                                RespStep::Reset(code) => match stream.as_mut() {
                                    Some(s) => s.send_reset(h2::Reason::from(code)),
                                    None => respond.send_reset(h2::Reason::from(code)),
                                },
                            }
                        }
                    });
                }
            });
        }
    });
}

#[derive(Clone, Debug, Default)]
pub struct RespRecord {
    pub status: Option<StatusCode>,
    pub headers: HeaderMap,
    pub end_stream_on_headers: bool,
    pub body: Vec<u8>,
    pub data_frames: usize,
    pub trailers: Option<HeaderMap>,
    pub error: Option<String>,
}

/// Raw client: one request with hand-built headers and body chunks; records exactly what comes back.
pub async fn raw_client_call(sim: &Sim, io: SimStream, path: &str, headers: &[(String, Vec<u8>)], body_chunks: Vec<Vec<u8>>) -> RespRecord {
    let mut rec = RespRecord::default();
    let (mut send, conn) = match h2::client::handshake(io).await {
        Ok(x) => x,
        Err(e) => {
            rec.error = Some(format!("handshake: {e}"));
            return rec;
        }
    };
    let sim2 = sim.clone();
    tokio::spawn(async move {
        if let Err(e) = conn.await {
            sim2.ev(|| format!("raw client: connection ended: {e}"));
        }
    });
    // let the peer's SETTINGS arrive first (a request larger than a shrunk stream window sent
    // before that can wedge h2's flow control; that corner is outside the properties checked here)
    tokio::time::sleep(std::time::Duration::from_millis(200)).await;
    let mut req = http::Request::new(());
    *req.method_mut() = Method::POST;
    *req.uri_mut() = format!("http://sim.test{path}").parse().unwrap();
    *req.headers_mut() = hm(headers);
    let mut send = match std::future::poll_fn(|cx| send.poll_ready(cx)).await {
        Ok(()) => send,
        Err(e) => {
            rec.error = Some(format!("ready: {e}"));
            return rec;
        }
    };
    let (resp_fut, mut stream) = match send.send_request(req, body_chunks.is_empty()) {
        Ok(x) => x,
        Err(e) => {
            rec.error = Some(format!("send_request: {e}"));
            return rec;
        }
    };
    let n = body_chunks.len();
    for (i, c) in body_chunks.into_iter().enumerate() {
        let last = i + 1 == n;
        stream.reserve_capacity(c.len());
        let mut rest = Bytes::from(c);
        if rest.is_empty() {
            let _ = stream.send_data(rest.clone(), last);
            continue;
        }
        while !rest.is_empty() {
            match std::future::poll_fn(|cx| stream.poll_capacity(cx)).await {
                Some(Ok(k)) if k > 0 => {
                    let chunk = rest.split_to(k.min(rest.len()));
                    let fin = last && rest.is_empty();
                    if stream.send_data(chunk, fin).is_err() {
                        rest.clear();
                    }
                    if !rest.is_empty() {
                        stream.reserve_capacity(rest.len());
                    }
                }
                _ => break,
            }
        }
    }
    let resp = match resp_fut.await {
        Ok(r) => r,
        Err(e) => {
            rec.error = Some(format!("response: {e}"));
            return rec;
        }
    };
    let (parts, mut body) = resp.into_parts();
    rec.status = Some(parts.status);
    rec.headers = parts.headers;
    rec.end_stream_on_headers = body.is_end_stream();
    sim.ev(|| format!("raw client: response {} headers {:?} end_stream={}", parts.status, rec.headers, rec.end_stream_on_headers));
    loop {
        match body.data().await {
            Some(Ok(d)) => {
                let _ = body.flow_control().release_capacity(d.len());
                rec.body.extend_from_slice(&d);
                rec.data_frames += 1;
            }
            Some(Err(e)) => {
                rec.error = Some(format!("body: {e}"));
                return rec;
            }
            None => break,
        }
    }
    match body.trailers().await {
        Ok(t) => rec.trailers = t,
        Err(e) => rec.error = Some(format!("trailers: {e}")),
    }
    sim.ev(|| format!("raw client: body {}B in {} frames, trailers {:?}", rec.body.len(), rec.data_frames, rec.trailers));
    rec
}
