//! C04 — reading any peer-supplied status is total; HTTP-status and HTTP/2-reset mapping tables.
//! Engine F: a scripted hostile/foreign server peer answers a generated tonic client.
//! (The for-all-statuses round-trip clause is sampled by the C02 loopback runs, classes
//! `C04/status-roundtrip-*`.)

use crate::indep;
use crate::peer::{PeerScript, PeerSvc};
use crate::rawcodec::RawMsg;
use crate::seams::{cut_bytes, ErrKind, Ev};
use bytes::Bytes;
use http::HeaderMap;
use simcore::{drive, Drive, Sim};
use tonic::{Code, Status};

fn v4(sim: &Sim, class: &str, detail: String) {
    sim.violation(&format!("C04/{class}"), detail);
}

#[derive(Debug)]
enum Outcome {
    Ok(usize),
    Err(Code, String, usize, usize, Option<(Option<Vec<u8>>, Option<Vec<u8>>)>), // code, message, details len, items before, (x-extra, x-extra-bin) of the status' metadata
}

fn extra_md(e: &tonic::Status) -> Option<(Option<Vec<u8>>, Option<Vec<u8>>)> {
    Some((e.metadata().get("x-extra").map(|v| v.as_bytes().to_vec()), e.metadata().get_bin("x-extra-bin").and_then(|v| v.to_bytes().ok()).map(|b| b.to_vec())))
}

/// unary or server-streaming call against the peer; returns what the caller observed
fn call(sim: &Sim, peer: &PeerSvc, streaming: bool) -> Option<Outcome> {
    let mut client = crate::rawsvc::raw_client::RawClient::new(peer.clone());
    let fut = async {
        if streaming {
            match client.server_stream(tonic::Request::new(RawMsg(Bytes::from_static(b"q")))).await {
                Err(e) => Outcome::Err(e.code(), e.message().to_string(), e.details().len(), 0, extra_md(&e)),
                Ok(r) => {
                    let mut s = r.into_inner();
                    let mut n = 0usize;
                    loop {
                        match s.message().await {
                            Ok(Some(_)) => n += 1,
                            Ok(None) => break Outcome::Ok(n),
                            Err(e) => break Outcome::Err(e.code(), e.message().to_string(), e.details().len(), n, extra_md(&e)),
                        }
                        if n > 1000 {
                            break Outcome::Ok(n);
                        }
                    }
                }
            }
        } else {
            match client.unary(tonic::Request::new(RawMsg(Bytes::from_static(b"q")))).await {
                Ok(_) => Outcome::Ok(1),
                Err(e) => Outcome::Err(e.code(), e.message().to_string(), e.details().len(), 0, extra_md(&e)),
            }
        }
    };
    let mut fut = std::pin::pin!(fut);
    match drive(sim, fut.as_mut(), 2_000_000) {
        Drive::Done(o) => {
            sim.ev(|| format!("caller observes {o:?}"));
            Some(o)
        }
        Drive::Hang { polls } => {
            v4(sim, "lost-wakeup", format!("call Pending with no wake-up after {polls} polls"));
            None
        }
        Drive::Budget { polls } => {
            v4(sim, "livelock", format!("call not finished after {polls} polls"));
            None
        }
        Drive::Stalled { .. } => None,
    }
}

fn percent_encode_all(s: &[u8], sim: &Sim) -> Vec<u8> {
    // independent encoder: escape everything outside unreserved, sometimes also escape plain chars
    let mut out = vec![];
    for b in s {
        let plain = b.is_ascii_alphanumeric() || matches!(b, b'-' | b'_' | b'.' | b'~');
        if plain && !sim.chance(1, 10) {
            out.push(*b);
        } else {
            out.extend_from_slice(format!("%{:02X}", b).as_bytes());
        }
    }
    out
}

/// Malformed / arbitrary status headers from the peer.
pub fn run_headers(sim: &Sim, _idx: u64) {
    let peer = PeerSvc::new(sim);
    let streaming = sim.chance(1, 2);
    let in_trailers = sim.chance(1, 2); // status in a trailers block after the body, or trailers-only
    // grpc-status
    let (status_val, expect_code): (Vec<u8>, Option<Code>) = match sim.weighted(&[5, 2, 2, 2]) {
        // "0" next to fields that cannot be decoded: the whole status degrades to an error
        3 => (b"0".to_vec(), Some(Code::Ok)),
        0 => {
            let c = sim.range(1, 16) as i32;
            (c.to_string().into_bytes(), Some(Code::from_i32(c)))
        }
        1 => (sim.pick(&["17", "99", "100", "-1", "255", "4294967296", "999999999999999999999"]).as_bytes().to_vec(), Some(Code::Unknown)),
        _ => (sim.pick(&["abc", "", "1x", "x1", "1.0", "0x1", "١", "1,2", "OK", "1 2"]).as_bytes().to_vec(), Some(Code::Unknown)),
    };
    // grpc-message
    let text = crate::gen::gen_message_text(sim);
    let (msg_val, msg_expect): (Option<Vec<u8>>, Option<Option<String>>) = match sim.weighted(&[3, 4, 2, 2, 1]) {
        0 => (None, Some(Some(String::new()))),
        1 => (Some(percent_encode_all(text.as_bytes(), sim)), Some(Some(text.clone()))),
        2 => (Some(sim.pick(&["%", "%4", "%zz", "abc%", "%%41", "100%", "%G1"]).as_bytes().to_vec()), None), // invalid percent-encoding: not judged beyond "no panic, still an error"
        3 => (Some(sim.pick(&["%ff%fe", "%C3", "a%80b", "%ED%A0%80"]).as_bytes().to_vec()), Some(None)), // invalid UTF-8 after decoding: must degrade to an error status
        _ => (Some(vec![b'a', 0xe9, 0xff]), None),                                                             // raw obs-text bytes
    };
    // grpc-status-details-bin
    let details = sim.bytes(sim.range(1, 50) as usize);
    let (det_val, det_valid): (Option<Vec<u8>>, bool) = match sim.weighted(&[4, 2, 2, 3]) {
        0 => (None, true),
        1 => (Some(indep::b64_encode(&details, true).into_bytes()), true),
        2 => (Some(indep::b64_encode(&details, false).into_bytes()), true),
        _ => (Some(sim.pick(&["!!!notbase64", "A", "====", "AAA*", "A A", "AQID\u{e9}"]).as_bytes().to_vec()), false),
    };
    let mut sh: Vec<(String, Vec<u8>)> = vec![("grpc-status".into(), status_val.clone())];
    if let Some(m) = &msg_val {
        sh.push(("grpc-message".into(), m.clone()));
    }
    if let Some(d) = &det_val {
        sh.push(("grpc-status-details-bin".into(), d.clone()));
    }
    let mut extra_sent: Option<Vec<u8>> = None;
    if sim.chance(1, 3) {
        let bin = sim.bytes(5);
        sh.push(("x-extra".into(), b"v".to_vec()));
        sh.push(("x-extra-bin".into(), indep::b64_encode(&bin, sim.chance(1, 2)).into_bytes()));
        extra_sent = Some(bin);
    }
    let mut script = PeerScript::ok_grpc();
    script.pending_pct = sim.pick(&[0u64, 30]);
    let nmsgs = if in_trailers && streaming { sim.range(0, 2) } else { 0 };
    if in_trailers {
        let mut data = vec![];
        for _ in 0..nmsgs {
            data.extend(indep::frame(0, &sim.bytes(sim.range(0, 30) as usize)));
        }
        script.body = cut_bytes(sim, &data, &[0]).into_iter().map(Ev::Data).collect();
        script.body.push(Ev::Trailers(crate::peer::header_map(&sh)));
    } else {
        script.headers.extend(sh.clone());
    }
    peer.push(script);
    sim.nontrivial();
    let show = |v: &Option<Vec<u8>>| v.as_ref().map(|x| String::from_utf8_lossy(x).into_owned());
    sim.sample(|| format!("status headers: streaming={streaming} in_trailers={in_trailers} grpc-status={:?} grpc-message={:?} details={:?} (valid={det_valid})", String::from_utf8_lossy(&status_val), show(&msg_val), show(&det_val)));
    let Some(out) = call(sim, &peer, streaming) else { return };
    if !det_valid {
        sim.probe("invalid-base64-details");
    }
    if msg_expect == Some(None) {
        sim.probe("invalid-utf8-message");
    }
    if expect_code == Some(Code::Ok) {
        // grpc-status 0: judged only when a field next to it is undecodable (invalid UTF-8 after
        // percent-decoding, invalid base64): "undecodable fields degrade to an error status"
        let undecodable = msg_expect == Some(None) || !det_valid;
        if undecodable {
            sim.probe("status-0-with-undecodable-field");
            if let Outcome::Ok(n) = out {
                v4(sim, "undecodable-status-field-read-as-success", format!("grpc-status 0 with grpc-message {:?} / details {:?} (valid base64: {det_valid}): caller sees success ({n} items)", show(&msg_val), show(&det_val)));
            }
        }
        return;
    }
    match out {
        Outcome::Ok(n) => v4(sim, "non-ok-status-read-as-success", format!("peer sent grpc-status {:?}, caller sees success ({n} items)", String::from_utf8_lossy(&status_val))),
        Outcome::Err(code, msg, dlen, items, extra) => {
            // custom metadata next to the status fields arrives with the error status, whether or not
            // the fields themselves could be decoded
            if let (Some(bin), Some((a, b))) = (&extra_sent, &extra) {
                if a.as_deref() != Some(b"v".as_slice()) || b.as_ref() != Some(bin) {
                    v4(sim, "status-metadata-lost", format!("peer sent x-extra / x-extra-bin next to grpc-status {:?} grpc-message {:?} details {:?}; the error status carries x-extra={:?} x-extra-bin={:?}", String::from_utf8_lossy(&status_val), show(&msg_val), show(&det_val), a, b));
                } else {
                    sim.probe("status-metadata-arrived");
                }
            }
            if items as u64 != nmsgs {
                v4(sim, "messages-lost-before-status", format!("peer sent {nmsgs} messages before the status, caller saw {items}"));
            }
            let fields_ok = det_valid && matches!(msg_expect, Some(Some(_)));
            if fields_ok {
                if Some(code) != expect_code {
                    if String::from_utf8_lossy(&status_val).parse::<i32>().map(|c| (1..=16).contains(&c)).unwrap_or(false) {
                        v4(sim, "valid-status-misread", format!("grpc-status {:?} read as {code:?}", String::from_utf8_lossy(&status_val)));
                    } else {
                        v4(sim, "malformed-status-not-unknown", format!("grpc-status {:?} read as {code:?}", String::from_utf8_lossy(&status_val)));
                    }
                }
                if let Some(Some(t)) = &msg_expect {
                    if &msg != t {
                        v4(sim, "valid-message-misread", format!("grpc-message {:?} read as {msg:?}, expected {t:?}", show(&msg_val)));
                    }
                }
                if det_val.is_some() && dlen != details.len() {
                    v4(sim, "valid-details-misread", format!("details {}B read as {dlen}B", details.len()));
                }
            }
            // undecodable fields: any error status is fine (it is one: we are in Err)
        }
    }
}

pub const CODE_GRID: u64 = 223 + 20 * 223;

/// Every 1-byte grpc-status value and every 2-byte value with a digit in it (legal header bytes):
/// only the canonical decimal codes 0..=16 may be read as a code, everything else is UNKNOWN.
pub fn run_code_bytes(sim: &Sim, idx: u64) {
    let legal: Vec<u8> = (0x20u8..=0x7e).chain(0x80..=0xff).collect(); // 223 bytes
    let cell = if idx < CODE_GRID { idx } else { sim.draw(CODE_GRID) };
    let val: Vec<u8> = if cell < 223 {
        vec![legal[cell as usize]]
    } else {
        let c = cell - 223;
        let (pos, digit, other) = ((c / 2230) as usize, ((c / 223) % 10) as u8, legal[(c % 223) as usize]);
        if pos == 0 { vec![b'0' + digit, other] } else { vec![other, b'0' + digit] }
    };
    // HTTP field values carry no leading/trailing whitespace on a real wire, but a header map can
    let text = String::from_utf8_lossy(&val).into_owned();
    let canonical: Option<i32> = text.parse::<i32>().ok().filter(|c| (0..=16).contains(c) && c.to_string() == text);
    let peer = PeerSvc::new(sim);
    let mut script = PeerScript::ok_grpc();
    let Ok(_) = http::HeaderValue::from_bytes(&val) else { return };
    script.headers.push(("grpc-status".into(), val.clone()));
    peer.push(script);
    sim.nontrivial();
    sim.sample(|| format!("grpc-status bytes {:02x?} ({text:?})", val));
    let Some(out) = call(sim, &peer, true) else { return };
    match (canonical, out) {
        (Some(0), Outcome::Ok(_)) => {}
        (Some(0), Outcome::Err(c, m, _, _, _)) => v4(sim, "ok-status-read-as-error", format!("grpc-status \"0\" read as {c:?} {m:?}")),
        (Some(c), Outcome::Err(got, _, _, _, _)) => {
            if got != Code::from_i32(c) {
                v4(sim, "valid-status-misread", format!("grpc-status {text:?} read as {got:?}"));
            }
        }
        (Some(c), Outcome::Ok(_)) => v4(sim, "non-ok-status-read-as-success", format!("grpc-status {c} read as success")),
        (None, Outcome::Err(got, _, _, _, _)) => {
            sim.probe("malformed-code-bytes");
            if got != Code::Unknown {
                v4(sim, "malformed-status-not-unknown", format!("grpc-status bytes {:02x?} ({text:?}) read as {got:?}", val));
            }
        }
        (None, Outcome::Ok(_)) => v4(sim, "malformed-status-read-as-success", format!("grpc-status bytes {:02x?} ({text:?}) read as success", val)),
    }
}

/// HTTP status without grpc-status.
pub fn run_http_status(sim: &Sim, idx: u64) {
    // the first 500 runs enumerate 100..=599 completely
    let code: u16 = if idx < 500 { 100 + idx as u16 } else { sim.pick(&[400u16, 401, 403, 404, 429, 502, 503, 504, 500, 501, 302, 204, 418, 399, 405, 430, 505]) };
    if code == 200 {
        return;
    }
    let peer = PeerSvc::new(sim);
    let streaming = sim.chance(1, 2);
    let mut script = PeerScript::ok_grpc();
    script.status = code;
    if sim.chance(1, 2) {
        script.headers = vec![("content-type".into(), b"text/html".to_vec())];
    }
    let with_body = sim.chance(1, 2);
    if with_body {
        // a gRPC frame, nothing, or what a proxy really sends with an error status: text / HTML
        let body: Vec<u8> = match sim.draw(4) {
            0 => indep::frame(0, b"x"),
            1 => vec![],
            2 => b"oops".to_vec(),
            _ => b"<html><body><h1>502 Bad Gateway</h1></body></html>\r\n".to_vec(),
        };
        if !body.is_empty() && body[0] != 0 {
            sim.probe("http-error-with-non-grpc-body");
        }
        script.body = cut_bytes(sim, &body, &[0]).into_iter().map(Ev::Data).collect();
    }
    if sim.chance(1, 3) {
        // trailers without grpc-status
        let mut t = HeaderMap::new();
        t.insert("x-other", "1".parse().unwrap());
        script.body.push(Ev::Trailers(t));
    }
    script.pending_pct = sim.pick(&[0u64, 30]);
    peer.push(script);
    sim.nontrivial();
    sim.sample(|| format!("http status {code} streaming={streaming} with_body={with_body}"));
    let want = match code {
        400 => Code::Internal,
        401 => Code::Unauthenticated,
        403 => Code::PermissionDenied,
        404 => Code::Unimplemented,
        429 | 502 | 503 | 504 => Code::Unavailable,
        _ => Code::Unknown,
    };
    let Some(out) = call(sim, &peer, streaming) else { return };
    match out {
        Outcome::Ok(n) => v4(sim, "http-error-status-read-as-success", format!("HTTP {code} without grpc-status: caller sees success ({n} items)")),
        Outcome::Err(c, m, _, _, _) => {
            if c != want {
                v4(sim, "http-status-mapping-wrong", format!("HTTP {code} without grpc-status: caller sees {c:?} ({m:?}), table says {want:?}"));
            }
        }
    }
}

/// RST_STREAM(reason) surfaced as a body error of type h2::Error.
pub fn run_reset(sim: &Sim, idx: u64) {
    let reason: u32 = if idx < 16 { idx as u32 } else { sim.pick(&[0u32, 1, 2, 3, 4, 5, 6, 7, 8, 9, 10, 11, 12, 13, 14, 255, 0xffff_ffff]) };
    let peer = PeerSvc::new(sim);
    let streaming = sim.chance(1, 2);
    let mut script = PeerScript::ok_grpc();
    let nmsgs = if streaming { sim.range(0, 2) } else { 0 };
    let mut data = vec![];
    for _ in 0..nmsgs {
        data.extend(indep::frame(0, &sim.bytes(sim.range(0, 30) as usize)));
    }
    // optionally cut inside a frame
    if sim.chance(1, 3) && !data.is_empty() {
        let t = sim.range(0, data.len() as u64 - 1) as usize;
        data.truncate(t);
    }
    script.body = cut_bytes(sim, &data, &[0]).into_iter().map(Ev::Data).collect();
    script.body.push(Ev::Err(ErrKind::H2(reason)));
    script.pending_pct = sim.pick(&[0u64, 30]);
    peer.push(script);
    sim.nontrivial();
    sim.sample(|| format!("reset reason {reason} streaming={streaming} after {}B of body", data.len()));
    let want: Option<Code> = match reason {
        8 => Some(Code::Cancelled),
        7 => Some(Code::Unavailable),
        11 => Some(Code::ResourceExhausted),
        12 => Some(Code::PermissionDenied),
        0 | 1 | 2 | 3 | 4 | 6 | 9 | 10 => Some(Code::Internal),
        _ => None, // STREAM_CLOSED, HTTP_1_1_REQUIRED, unknown: the gRPC table leaves them open
    };
    let Some(out) = call(sim, &peer, streaming) else { return };
    match out {
        Outcome::Ok(n) => v4(sim, &format!("reset-read-as-success-reason-{reason}"), format!("stream reset with reason {reason}: caller sees success ({n} items)")),
        Outcome::Err(c, m, _, _, _) => {
            if let Some(w) = want {
                if c != w {
                    v4(sim, &format!("h2-reset-mapping-wrong-reason-{reason}"), format!("RST_STREAM reason {reason}: caller sees {c:?} ({m:?}), gRPC table says {w:?}"));
                }
            }
        }
    }
    let _ = Status::ok("");
}

/// The *request* stream of a client-streaming or bidirectional call fails under the handler — a
/// stream reset with an HTTP/2 error code, or the connection lost: the handler is told so, with the
/// code of the gRPC table; it never sees a clean end of a request stream that did not end.
/// (RST_STREAM(CANCEL) — the caller going away — is what the tree reports as a clean end; not judged.)
pub fn run_request_reset(sim: &Sim, idx: u64) {
    use crate::handlers::{Handler, Script};
    use crate::peer::raw_call;
    let reason: Option<u32> = if idx < 14 { Some(idx as u32) } else if sim.chance(3, 4) { Some(sim.pick(&[0u32, 1, 2, 3, 4, 5, 6, 7, 9, 10, 11, 12, 13])) } else { None };
    let io_kind = sim.pick(&[std::io::ErrorKind::ConnectionReset, std::io::ErrorKind::BrokenPipe, std::io::ErrorKind::UnexpectedEof]);
    let bidi = sim.chance(1, 2);
    let n = sim.range(0, 3);
    let mut data = vec![];
    let mut sent: Vec<Vec<u8>> = vec![];
    for _ in 0..n {
        let m = sim.bytes(sim.range(0, 40) as usize);
        data.extend(indep::frame(0, &m));
        sent.push(m);
    }
    let cut_inside = !data.is_empty() && sim.chance(1, 3);
    if cut_inside {
        let t = sim.range(1, data.len() as u64 - 1).max(1) as usize;
        data.truncate(t);
    }
    let mut body: Vec<Ev> = cut_bytes(sim, &data, &[0]).into_iter().map(Ev::Data).collect();
    body.push(Ev::Err(match reason {
        Some(r) => ErrKind::H2(r),
        None => ErrKind::Io(io_kind),
    }));
    sim.nontrivial();
    sim.sample(|| format!("request stream of a {} call fails with {:?} after {}B ({} whole messages sent{})", if bidi { "bidi" } else { "client-streaming" }, reason.map(|r| format!("RST_STREAM({r})")).unwrap_or(format!("{io_kind:?}")), data.len(), n, if cut_inside { ", cut inside a frame" } else { "" }));
    sim.ev(|| format!("config: bidi={bidi} reason={reason:?} io={io_kind:?} bytes={} cut_inside={cut_inside}", data.len()));
    let handler = Handler::new(sim);
    // the handler reads its whole request stream before answering
    handler.add_script(1, Script { msgs: vec![b"r".to_vec()], read_mode: 0, ..Default::default() });
    let mut server = crate::rawsvc::raw_server::RawServer::new(handler.clone());
    let headers: Vec<(String, Vec<u8>)> = vec![("content-type".into(), b"application/grpc".to_vec()), ("te".into(), b"trailers".to_vec()), ("sim-call".into(), b"1".to_vec())];
    let path = if bidi { "/sim.Raw/Bidi" } else { "/sim.Raw/ClientStream" };
    let Some(_resp) = raw_call(sim, "C04", &mut server, http::Method::POST, path, &headers, body, sim.pick(&[0u64, 30])) else { return };
    let Some(log) = handler.log(1) else {
        return v4(sim, "request-reset-handler-not-entered", "the handler was never invoked".into());
    };
    if reason == Some(8) {
        sim.probe("request-reset-cancel-not-judged");
        return;
    }
    sim.probe("request-stream-failure-judged");
    match &log.req_error {
        None => v4(sim, "request-stream-failure-read-as-clean-end", format!("the request body failed with {:?} after {} bytes; the handler read {} messages and then a clean end of its request stream", reason.map(|r| format!("RST_STREAM({r})")).unwrap_or(format!("{io_kind:?}")), data.len(), log.msgs.len())),
        Some(e) => {
            if let Some(r) = reason {
                let want: Option<&str> = match r {
                    7 => Some("Unavailable"),
                    11 => Some("ResourceExhausted"),
                    12 => Some("PermissionDenied"),
                    0 | 1 | 2 | 3 | 4 | 6 | 9 | 10 => Some("Internal"),
                    _ => None,
                };
                if let Some(w) = want {
                    if !e.starts_with(&format!("{w}:")) {
                        v4(sim, &format!("h2-reset-mapping-wrong-reason-{r}"), format!("request stream reset with reason {r}: the handler sees {e:?}, the gRPC table says {w}"));
                    }
                }
            }
        }
    }
    // what the handler did read is a prefix of what was sent
    let whole: Vec<Vec<u8>> = sent.iter().map(|m| crate::rawcodec::RawMsg(bytes::Bytes::from(m.clone()))).map(|m| crate::handlers::SimMsg::canon(&m)).collect();
    if log.msgs.len() > whole.len() || log.msgs.iter().zip(whole.iter()).any(|(a, b)| a != b) {
        v4(sim, "request-messages-not-a-prefix", format!("handler read {:?}, sent {:?}", log.msgs.iter().map(|m| m.len()).collect::<Vec<_>>(), whole.iter().map(|m| m.len()).collect::<Vec<_>>()));
    }
}
