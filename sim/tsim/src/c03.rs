//! C03 — wire conformance, checked as a passive monitor on what the simulated wire carries.
//! All violation classes are namespaced `C03/...`.

use crate::fdrive::{BodyObs, FrameObs};
use crate::indep::{self, Enc, ParseEnd};
use http::HeaderMap;
use simcore::Sim;

/// Body bytes must be a concatenation of `flag ∈ {0,1} | be32 len | payload`, `payload` = the
/// codec's serialization of the corresponding message, compressed with the announced encoding
/// exactly when flag = 1.  `expect` = serializations of the messages that must be on the wire, in
/// order (exactly these — no more, no fewer — when `exact`; a prefix-free equality otherwise).
pub fn check_message_bytes(sim: &Sim, who: &str, data: &[u8], announced: Option<Enc>, expect: &[Vec<u8>], exact: bool) {
    let (frames, end) = indep::parse_frames(data);
    // a partial tail is a framing defect only when the body was carried to its end
    if let (ParseEnd::Truncated { at }, true) = (&end, exact) {
        let at = *at;
        sim.violation("C03/body-not-well-framed", format!("{who}: {} body bytes do not parse as length-prefixed messages: trailing partial frame at offset {at}", data.len()));
        return;
    }
    for (i, f) in frames.iter().enumerate() {
        if f.flag > 1 {
            sim.violation("C03/illegal-flag-byte", format!("{who}: message {i} has flag byte {}", f.flag));
            return;
        }
        if f.flag == 1 && announced.is_none() {
            sim.violation("C03/compressed-flag-without-announced-encoding", format!("{who}: message {i} has flag 1 but no grpc-encoding was announced"));
            return;
        }
        let ser: Vec<u8> = if f.flag == 1 {
            let cap = expect.get(i).map(|e| e.len()).unwrap_or(0) + (1 << 16);
            match indep::inflate(announced.unwrap(), &f.payload, cap) {
                Ok(s) => s,
                Err(e) => {
                    sim.violation("C03/payload-does-not-inflate-with-announced-encoding", format!("{who}: message {i} flagged compressed does not inflate as {}: {e}", announced.unwrap().name()));
                    return;
                }
            }
        } else {
            f.payload.clone()
        };
        match expect.get(i) {
            Some(e) if *e == ser => {}
            Some(e) => {
                sim.violation(
                    "C03/payload-is-not-the-codec-serialization",
                    format!("{who}: message {i}: wire payload ({}B {}) is not the serialization of the message produced ({}B {})", ser.len(), crate::seams::hex_head(&ser), e.len(), crate::seams::hex_head(e)),
                );
                return;
            }
            None => {
                sim.violation("C03/extra-message-on-wire", format!("{who}: message {i} on the wire but only {} were produced", expect.len()));
                return;
            }
        }
    }
    if exact && frames.len() != expect.len() {
        sim.violation("C03/message-missing-on-wire", format!("{who}: {} messages on the wire, {} produced", frames.len(), expect.len()));
    }
}

pub fn count_status(h: &HeaderMap) -> usize {
    h.get_all("grpc-status").iter().count()
}

/// Server response body as the wire sees it: exactly one grpc-status, in a single trailers block
/// that ends the body.  (`headers_status` = number of grpc-status entries in the response head.)
pub fn check_server_body_end(sim: &Sim, who: &str, obs: &BodyObs, headers_status: usize) {
    let mut n_status = headers_status;
    let mut seen_trailers = false;
    for (i, f) in obs.frames.iter().enumerate() {
        if seen_trailers {
            sim.violation("C03/frame-after-trailers", format!("{who}: frame {i} follows the trailers block"));
            return;
        }
        match f {
            FrameObs::Trailers(t) => {
                seen_trailers = true;
                n_status += count_status(t);
            }
            FrameObs::Err(c, m) => {
                sim.violation("C03/server-body-error-instead-of-status", format!("{who}: response body failed with {c:?} {m:?} instead of ending with a grpc-status trailers block"));
                return;
            }
            FrameObs::Data(_) => {}
        }
    }
    if matches!(obs.ended_by, "hang" | "stalled" | "livelock") {
        return; // judged by the owning property
    }
    if headers_status > 0 && !obs.frames.is_empty() {
        sim.violation("C03/status-in-headers-with-body", format!("{who}: grpc-status in the response headers but the body carries {} frames", obs.frames.len()));
    }
    if n_status != 1 {
        sim.violation("C03/not-exactly-one-grpc-status", format!("{who}: {n_status} grpc-status entries (headers {headers_status}, ended by {})", obs.ended_by));
    }
}

/// Client request body: no trailers.
pub fn check_client_body(sim: &Sim, who: &str, obs: &BodyObs) {
    if !obs.trailers().is_empty() {
        sim.violation("C03/request-body-has-trailers", format!("{who}: request body carries a trailers frame"));
    }
}

/// Path construction under a channel origin with a path prefix (F, foreign peer view).
pub fn run_origin(sim: &Sim, _idx: u64) {
    use crate::peer::PeerSvc;
    use crate::rawcodec::RawMsg;
    let origin: &str = sim.pick(&["http://sim.test", "http://sim.test/", "http://sim.test/api", "http://sim.test/api/", "http://sim.test/a/b", "http://sim.test/a/b/", "https://sim.test:8443/v1", "http://sim.test//"]);
    let shape = sim.draw(4) as usize;
    let peer = PeerSvc::new(sim);
    let mut client = crate::rawsvc::raw_client::RawClient::with_origin(peer.clone(), origin.parse().expect("harness: origin"));
    let fut = async {
        let m = RawMsg(bytes::Bytes::from_static(b"x"));
        match shape {
            0 => client.unary(tonic::Request::new(m)).await.map(|_| ()).map_err(|e| e.code()),
            1 => client.client_stream(tonic::Request::new(crate::seams::MsgSource::new(sim, vec![m], 0))).await.map(|_| ()).map_err(|e| e.code()),
            2 => client.server_stream(tonic::Request::new(m)).await.map(|_| ()).map_err(|e| e.code()),
            _ => client.bidi(tonic::Request::new(crate::seams::MsgSource::new(sim, vec![m], 0))).await.map(|_| ()).map_err(|e| e.code()),
        }
    };
    let mut fut = std::pin::pin!(fut);
    let _ = simcore::drive(sim, fut.as_mut(), 1_000_000);
    sim.nontrivial();
    sim.sample(|| format!("origin {origin:?} shape {}", crate::c02::SHAPES[shape]));
    let seen = peer.seen.lock().unwrap();
    let Some(req) = seen.first() else {
        return sim.violation("C03/no-request-on-wire", format!("origin {origin:?}: no request reached the transport"));
    };
    let method_path = format!("/sim.Raw/{}", crate::c02::SHAPES[shape]);
    let prefix = origin.parse::<http::Uri>().unwrap().path().trim_end_matches('/').to_string();
    let got = req.uri.as_ref().map(|u| u.path().to_string()).unwrap_or_default();
    sim.ev(|| format!("origin {origin:?} -> request uri {:?}", req.uri));
    if !got.ends_with(&method_path) {
        sim.violation("C03/request-path-wrong", format!("origin {origin:?}: :path {got:?} does not end in {method_path:?}"));
    } else if !got.starts_with(&prefix) || got.len() < prefix.len() + method_path.len() {
        sim.violation("C03/request-path-wrong", format!("origin {origin:?}: the origin's path prefix {prefix:?} is missing from :path {got:?}"));
    }
    if !prefix.is_empty() {
        sim.probe("origin-with-path-prefix");
    }
    if req.method != Some(http::Method::POST) {
        sim.violation("C03/request-not-post", format!("origin {origin:?}: method {:?}", req.method));
    }
    if req.headers.get("te").map(|v| v.as_bytes()) != Some(b"trailers") || req.headers.get("content-type").map(|v| v.as_bytes()) != Some(b"application/grpc") {
        sim.violation("C03/request-te-wrong", format!("origin {origin:?}: te {:?} content-type {:?}", req.headers.get("te"), req.headers.get("content-type")));
    }
}

/// A service whose proto names are not canonical UpperCamel / snake_case (`HTTPecho_v2`, `get_URL`):
/// paths and the service name on the wire are the proto identifiers, not the Rust item names.
/// Client side seen by a foreign peer, server side driven by a raw request.
pub fn run_odd_names(sim: &Sim, _idx: u64) {
    use crate::pb::htt_pecho_v2_client::HttPechoV2Client;
    use crate::pb::htt_pecho_v2_server::{HttPechoV2, HttPechoV2Server};
    use crate::pb::Msg;
    use crate::peer::{raw_call, wire_status, PeerSvc};
    use prost::Message as _;
    struct Svc;
    #[tonic::async_trait]
    impl HttPechoV2 for Svc {
        async fn get_url(&self, r: tonic::Request<Msg>) -> Result<tonic::Response<Msg>, tonic::Status> {
            Ok(tonic::Response::new(r.into_inner()))
        }
        type PingStream = tokio_stream::Once<Result<Msg, tonic::Status>>;
        async fn ping(&self, r: tonic::Request<Msg>) -> Result<tonic::Response<Self::PingStream>, tonic::Status> {
            Ok(tonic::Response::new(tokio_stream::once(Ok(r.into_inner()))))
        }
    }
    let streaming = sim.chance(1, 2);
    let want_path = if streaming { "/simpb.HTTPecho_v2/Ping" } else { "/simpb.HTTPecho_v2/get_URL" };
    sim.nontrivial();
    sim.sample(|| format!("odd proto names: {want_path}"));
    if <HttPechoV2Server<Svc> as tonic::server::NamedService>::NAME != "simpb.HTTPecho_v2" || crate::pb::htt_pecho_v2_server::SERVICE_NAME != "simpb.HTTPecho_v2" {
        sim.violation("C03/service-name-wrong", format!("NamedService::NAME = {:?}, SERVICE_NAME = {:?}; the proto says simpb.HTTPecho_v2", <HttPechoV2Server<Svc> as tonic::server::NamedService>::NAME, crate::pb::htt_pecho_v2_server::SERVICE_NAME));
    }
    // ---- client side
    let peer = PeerSvc::new(sim);
    let mut client = HttPechoV2Client::new(peer.clone());
    let msg = Msg { tag: 7, data: sim.bytes(sim.range(0, 20) as usize), text: String::new(), nums: vec![] };
    {
        let m = msg.clone();
        let fut = async {
            if streaming {
                client.ping(tonic::Request::new(m)).await.map(|_| ()).map_err(|e| e.code())
            } else {
                client.get_url(tonic::Request::new(m)).await.map(|_| ()).map_err(|e| e.code())
            }
        };
        let mut fut = std::pin::pin!(fut);
        let _ = simcore::drive(sim, fut.as_mut(), 1_000_000);
    }
    match peer.seen.lock().unwrap().first() {
        None => sim.violation("C03/no-request-on-wire", "odd names: no request reached the transport".into()),
        Some(req) => {
            let got = req.uri.as_ref().map(|u| u.path().to_string()).unwrap_or_default();
            if got != want_path {
                sim.violation("C03/request-path-wrong", format!("generated client posts to {got:?}, the proto's method is {want_path:?}"));
            }
        }
    }
    // ---- server side
    let mut server = HttPechoV2Server::new(Svc);
    let headers: Vec<(String, Vec<u8>)> = vec![("content-type".into(), b"application/grpc".to_vec()), ("te".into(), b"trailers".to_vec())];
    let body = vec![crate::seams::Ev::Data(bytes::Bytes::from(crate::indep::frame(0, &msg.encode_to_vec())))];
    let Some(resp) = raw_call(sim, "C03", &mut server, http::Method::POST, want_path, &headers, body, 0) else { return };
    match wire_status(&resp) {
        Some((0, _)) => sim.probe("odd-named-method-served"),
        other => sim.violation("C03/proto-path-not-served", format!("generated server answers the proto's path {want_path:?} with grpc-status {other:?}")),
    }
}
