//! Engine-F loopback transport: the generated client's `http::Request<Body>` is handed to the
//! generated server's `Service`; request and response bodies pass through `ReBody`, a re-chunking,
//! delay-injecting adaptor that also records everything that crosses the simulated wire (the tap).

use bytes::Bytes;
use http::{HeaderMap, Method, StatusCode, Uri, Version};
use http_body::{Body, Frame};
use simcore::Sim;
use std::collections::VecDeque;
use std::future::Future;
use std::pin::Pin;
use std::sync::{Arc, Mutex};
use std::task::{Context, Poll};
use tonic::Status;

#[derive(Default, Debug, Clone)]
pub struct WireDir {
    pub data: Vec<u8>,
    pub data_frames: usize,
    pub trailers: Vec<HeaderMap>,
    pub error: Option<String>,
    pub ended: bool,
    pub frames_after_trailers: u32,
}

#[derive(Default, Debug, Clone)]
pub struct CallRecord {
    pub req_head: Option<(Method, Uri, Version, HeaderMap)>,
    pub req: WireDir,
    pub resp_head: Option<(StatusCode, Version, HeaderMap)>,
    pub resp: WireDir,
}

pub type Tap = Arc<Mutex<Vec<CallRecord>>>;

#[derive(Clone, Copy, PartialEq, Eq, Debug)]
pub enum Dir {
    Req,
    Resp,
}

pub struct ReBody {
    sim: Sim,
    inner: tonic::body::Body,
    inner_done: bool,
    carry: VecDeque<Bytes>,
    pending_trailers: Option<HeaderMap>,
    pending_err: Option<Status>,
    finished: bool,
    tap: Tap,
    call: usize,
    dir: Dir,
    pending_pct: u64,
    recut: bool,
    consec_pending: u32,
}

impl ReBody {
    pub fn new(sim: &Sim, inner: tonic::body::Body, tap: Tap, call: usize, dir: Dir, pending_pct: u64, recut: bool) -> ReBody {
        ReBody { sim: sim.clone(), inner, inner_done: false, carry: VecDeque::new(), pending_trailers: None, pending_err: None, finished: false, tap, call, dir, pending_pct, recut, consec_pending: 0 }
    }
    fn rec<F: FnOnce(&mut WireDir)>(&self, f: F) {
        let mut t = self.tap.lock().unwrap();
        let r = &mut t[self.call];
        match self.dir {
            Dir::Req => f(&mut r.req),
            Dir::Resp => f(&mut r.resp),
        }
    }
}

impl Body for ReBody {
    type Data = Bytes;
    type Error = Status;

    fn poll_frame(mut self: Pin<&mut Self>, cx: &mut Context<'_>) -> Poll<Option<Result<Frame<Bytes>, Status>>> {
        let this = &mut *self;
        this.sim.step();
        if this.finished {
            return Poll::Ready(None);
        }
        if this.pending_pct > 0 && this.consec_pending < crate::seams::MAX_CONSEC_PENDING && this.sim.chance(this.pending_pct, 100) {
            this.consec_pending += 1;
            this.sim.fault("wire-pending");
            cx.waker().wake_by_ref();
            return Poll::Pending;
        }
        this.consec_pending = 0;
        loop {
            if let Some(front) = this.carry.front_mut() {
                let avail = front.len();
                let n = if !this.recut || avail <= 1 {
                    avail
                } else {
                    match this.sim.weighted(&[5, 2, 3]) {
                        0 => avail,
                        1 => 1,
                        _ => this.sim.range(1, avail as u64) as usize,
                    }
                };
                if n < avail {
                    this.sim.fault("wire-recut");
                }
                let out = front.split_to(n);
                if front.is_empty() {
                    this.carry.pop_front();
                }
                let dir = this.dir;
                this.sim.ev(|| format!("wire[{:?}]: DATA {}B {}", dir, out.len(), crate::seams::hex_head(&out)));
                this.rec(|w| {
                    w.data.extend_from_slice(&out);
                    w.data_frames += 1;
                    if !w.trailers.is_empty() {
                        w.frames_after_trailers += 1;
                    }
                });
                return Poll::Ready(Some(Ok(Frame::data(out))));
            }
            if let Some(t) = this.pending_trailers.take() {
                let dir = this.dir;
                this.sim.ev(|| format!("wire[{:?}]: TRAILERS {:?}", dir, t));
                this.rec(|w| {
                    if !w.trailers.is_empty() {
                        w.frames_after_trailers += 1;
                    }
                    w.trailers.push(t.clone());
                });
                // like hyper: nothing is read from a body after its trailers
                this.finished = true;
                this.rec(|w| w.ended = true);
                return Poll::Ready(Some(Ok(Frame::trailers(t))));
            }
            if let Some(e) = this.pending_err.take() {
                let dir = this.dir;
                this.sim.ev(|| format!("wire[{:?}]: body error {:?} {:?}", dir, e.code(), e.message()));
                this.rec(|w| w.error = Some(format!("{:?}: {}", e.code(), e.message())));
                this.finished = true;
                return Poll::Ready(Some(Err(e)));
            }
            if this.inner_done {
                this.finished = true;
                this.rec(|w| w.ended = true);
                let dir = this.dir;
                this.sim.ev(|| format!("wire[{:?}]: END", dir));
                return Poll::Ready(None);
            }
            match Pin::new(&mut this.inner).poll_frame(cx) {
                Poll::Pending => return Poll::Pending,
                Poll::Ready(None) => this.inner_done = true,
                Poll::Ready(Some(Err(e))) => {
                    this.inner_done = true;
                    this.pending_err = Some(e);
                }
                Poll::Ready(Some(Ok(f))) => {
                    if f.is_data() {
                        let d = f.into_data().unwrap();
                        if d.is_empty() {
                            // an empty DATA frame is legal; pass it on as such
                            this.rec(|w| w.data_frames += 1);
                            if this.inner.is_end_stream() {
                                this.inner_done = true;
                            }
                            return Poll::Ready(Some(Ok(Frame::data(d))));
                        }
                        this.carry.push_back(d);
                    } else if f.is_trailers() {
                        this.pending_trailers = Some(f.into_trailers().unwrap());
                        this.inner_done = true;
                    }
                    // like hyper: stop reading once the body says it has ended
                    if this.inner.is_end_stream() {
                        this.inner_done = true;
                    }
                }
            }
        }
    }
}

type RespFuture = Pin<Box<dyn Future<Output = Result<http::Response<ReBody>, std::convert::Infallible>> + Send>>;

#[derive(Clone)]
pub struct Loopback<S> {
    pub sim: Sim,
    pub server: S,
    pub tap: Tap,
    pub req_pending: u64,
    pub resp_pending: u64,
    pub recut: bool,
}

impl<S> Loopback<S> {
    pub fn new(sim: &Sim, server: S) -> Self {
        let pend = [0u64, 0, 10, 50];
        Loopback { sim: sim.clone(), server, tap: Arc::new(Mutex::new(vec![])), req_pending: sim.pick(&pend), resp_pending: sim.pick(&pend), recut: sim.chance(3, 4) }
    }
}

impl<S> tower_service::Service<http::Request<tonic::body::Body>> for Loopback<S>
where
    S: tower_service::Service<http::Request<ReBody>, Response = http::Response<tonic::body::Body>, Error = std::convert::Infallible>,
    S::Future: Send + 'static,
{
    type Response = http::Response<ReBody>;
    type Error = std::convert::Infallible;
    type Future = RespFuture;

    fn poll_ready(&mut self, cx: &mut Context<'_>) -> Poll<Result<(), Self::Error>> {
        self.server.poll_ready(cx)
    }

    fn call(&mut self, req: http::Request<tonic::body::Body>) -> Self::Future {
        let (parts, body) = req.into_parts();
        let call = {
            let mut t = self.tap.lock().unwrap();
            t.push(CallRecord { req_head: Some((parts.method.clone(), parts.uri.clone(), parts.version, parts.headers.clone())), ..Default::default() });
            t.len() - 1
        };
        self.sim.ev(|| format!("wire: request {} {} {:?} headers {:?}", parts.method, parts.uri, parts.version, parts.headers));
        let rb = ReBody::new(&self.sim, body, self.tap.clone(), call, Dir::Req, self.req_pending, self.recut);
        let fut = self.server.call(http::Request::from_parts(parts, rb));
        let sim = self.sim.clone();
        let tap = self.tap.clone();
        let (resp_pending, recut) = (self.resp_pending, self.recut);
        Box::pin(async move {
            let resp = match fut.await {
                Ok(r) => r,
                Err(e) => match e {},
            };
            let (parts, body) = resp.into_parts();
            sim.ev(|| format!("wire: response {} {:?} headers {:?}", parts.status, parts.version, parts.headers));
            tap.lock().unwrap()[call].resp_head = Some((parts.status, parts.version, parts.headers.clone()));
            let rb = ReBody::new(&sim, body, tap, call, Dir::Resp, resp_pending, recut);
            Ok(http::Response::from_parts(parts, rb))
        })
    }
}

impl Default for ReBody {
    /// An already finished body (generated `with_interceptor` asks `ResponseBody: Default`).
    fn default() -> ReBody {
        ReBody { sim: Sim::generate(0, false), inner: tonic::body::Body::default(), inner_done: true, carry: VecDeque::new(), pending_trailers: None, pending_err: None, finished: true, tap: Arc::new(Mutex::new(vec![])), call: 0, dir: Dir::Resp, pending_pct: 0, recut: false, consec_pending: 0 }
    }
}

/// Adapts a server-side service whose response body is not `tonic::body::Body` itself (e.g.
/// `InterceptedService`) to what `Loopback` carries.
#[derive(Clone)]
pub struct BoxResp<S>(pub S);

impl<S, ReqB, RespB> tower_service::Service<http::Request<ReqB>> for BoxResp<S>
where
    S: tower_service::Service<http::Request<ReqB>, Response = http::Response<RespB>, Error = std::convert::Infallible>,
    S::Future: Send + 'static,
    RespB: Body<Data = Bytes> + Send + 'static,
    RespB::Error: Into<Box<dyn std::error::Error + Send + Sync>>,
{
    type Response = http::Response<tonic::body::Body>;
    type Error = std::convert::Infallible;
    type Future = Pin<Box<dyn Future<Output = Result<Self::Response, Self::Error>> + Send>>;
    fn poll_ready(&mut self, cx: &mut Context<'_>) -> Poll<Result<(), Self::Error>> {
        self.0.poll_ready(cx)
    }
    fn call(&mut self, req: http::Request<ReqB>) -> Self::Future {
        let fut = self.0.call(req);
        Box::pin(async move { fut.await.map(|r| r.map(tonic::body::Body::new)) })
    }
}
