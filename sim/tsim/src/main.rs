//! tsim — deterministic simulation checks for hyperium/tonic (engines F and N).
//! One sub-command per property; see /verif/DESIGN.md.

#![allow(dead_code)]

mod alloc;
mod c01;
mod c03;
mod c06;
mod c07;
mod fdrive;
mod indep;
mod rawcodec;
mod seams;

pub mod pb {
    tonic::include_proto!("simpb");
}
pub mod nopkg {
    tonic::include_proto!("_");
}
pub mod rawsvc {
    include!(concat!(env!("OUT_DIR"), "/sim.Raw.rs"));
}

use simcore::{Property, Scenario};

#[global_allocator]
static GLOBAL: alloc::Counting = alloc::Counting;

const RVS_F: &[(&str, &str)] = &[
    ("tonic codec / status / metadata / client::Grpc / server::Grpc / generated code", "real"),
    ("tonic transport, hyper, h2, tower Buffer, axum", "not run in engine F"),
    ("executor", "simulator-owned (simcore::exec), no runtime"),
    ("network / HTTP body / message source", "simulated seams (SimBody, SimSource) driven by the tape"),
    ("flate2 / zstd", "real"),
    ("clock", "none needed"),
];

fn scn_c01() -> Scenario {
    Scenario {
        name: "F-roundtrip",
        engine: "F",
        run: c01::run,
        quick: 150_000,
        thorough: 3_000_000,
        grid: 0,
        what: "EncodeBody (client/server role, 4 encodings, raw/prost codec, buffer settings) under a drawn source-readiness schedule and under the all-Ready reference; bytes re-cut and fed with delays into Streaming",
    }
}

fn scn_c06_dec() -> Scenario {
    Scenario {
        name: "F-limit-decode",
        engine: "F",
        run: c06::run_decode,
        quick: 100_000,
        thorough: 2_000_000,
        grid: 0,
        what: "Streaming with a decoding limit: frames whose wire length is limit-1/limit/limit+1 (also compressed, also around the 4 MiB default), declared lengths up to 2^32-1 with a silent peer, counting allocator",
    }
}

fn scn_c06_enc() -> Scenario {
    Scenario {
        name: "F-limit-encode",
        engine: "F",
        run: c06::run_encode,
        quick: 100_000,
        thorough: 2_000_000,
        grid: 0,
        what: "EncodeBody with an encoding limit: an oversized message at any position; earlier messages buffered or flushed depending on source readiness and yield threshold",
    }
}

fn scn_c06_4g() -> Scenario {
    Scenario {
        name: "F-encode-4gib",
        engine: "F",
        run: c06::run_encode_4gib,
        quick: 0,
        thorough: 8,
        grid: 0,
        what: "an encoder output of 2^32+1 untouched bytes must end the call with RESOURCE_EXHAUSTED",
    }
}

fn props() -> Vec<Property> {
    vec![
    Property {
        id: "C01",
        title: "Message streams survive encode/decode unchanged under any chunking",
        scenarios: vec![scn_c01()],
        rule: "one run = (role, encoding, codec, encoder/decoder buffer settings, 0..8 messages with boundary-biased sizes) x source readiness pattern x chunking of the emitted bytes x body readiness pattern; non-trivial = at least one injected Pending or a cut inside the byte stream; distinct = distinct hash of all structural tape decisions",
        real_vs_stub: RVS_F.to_vec(),
        assumptions: vec!["flate2 write::* / zstd bulk are a faithful reference for inflating what tonic compressed", "per-response compression opt-out is exercised through server::Grpc in the C02/C05 loopback scenarios, not here"],
        required_probes: vec!["cut-inside-prefix", "cut-inside-compressed-payload", "pending-with-nonempty-buf", "zero-length-message", "message-larger-than-decoder-buffer", "cut-one-byte-chunks"],
    },
    Property {
        id: "C03",
        title: "Requests and responses on the wire are spec-conformant gRPC",
        scenarios: vec![scn_c01(), scn_c06_enc()],
        rule: "passive wire monitor on the C01/C06 (and loopback) runs: every emitted body is parsed by the independent decoder; non-trivial/distinct as in the host scenario",
        real_vs_stub: RVS_F.to_vec(),
        assumptions: vec!["'nothing after the trailers block' is judged the way hyper's HTTP/2 sender consumes a body (stops after trailers / error / None / end-stream flag)"],
        required_probes: vec!["encoder-emitted-several-data-frames"],
    },
    Property {
        id: "C06",
        title: "Message size limits are enforced exactly and without collateral loss",
        scenarios: vec![scn_c06_dec(), scn_c06_enc(), scn_c06_4g()],
        rule: "one run = a stream of small messages with one probe message whose wire length sits at limit-1/limit/limit+1 (or a declared length with no payload) x chunking x readiness x role/direction; every run is non-trivial; distinct = distinct hash of all structural tape decisions",
        real_vs_stub: RVS_F.to_vec(),
        assumptions: vec![
            "for compressed outgoing messages the harness cannot know tonic's exact compressed length, so the accept/refuse verdict is judged only away from the boundary (conservation is judged always)",
            "allocation is observed with a counting global allocator: no single allocation >= 1 MiB while refusing a declared length >= 1 MiB under a limit <= 64 KiB",
        ],
        required_probes: vec!["limit-exactly-hit", "declared-length-without-payload", "refused-without-payload", "allocation-watched", "oversized-candidate-not-first", "oversized-candidate-first", "encode-over-limit", "encode-within-limit"],
    },
    Property {
        id: "C07",
        title: "Hostile or truncated input ends a stream with one error, never a hang or panic",
        scenarios: vec![Scenario {
            name: "F-decode-hostile",
            engine: "F",
            run: c07::run,
            quick: 300_000,
            thorough: 6_000_000,
            grid: 0,
            what: "mutated/random byte strings in any chunking with trailers and injected body errors into tonic::codec::Streaming; polled past the first terminal event",
        }],
        rule: "one run = one generated byte string (valid stream + 0..3 mutations, or random bytes) x chunking x readiness pattern x trailers x optional body error/stall; non-trivial = the input has a framing defect or a body error was injected; distinct = distinct hash of all structural tape decisions",
        real_vs_stub: RVS_F.to_vec(),
        assumptions: vec![
            "flate2 write::* decoders and zstd bulk API are a faithful reference for the read::* adaptors tonic uses",
            "a compressed frame the independent inflater rejects is not judged for content (only framing alignment)",
        ],
        required_probes: vec!["cut-inside-prefix", "cut-one-byte-chunks", "body-polled-after-end"],
    },
    ]
}

fn main() {
    simcore::main_with(props());
}
