//! tsim — deterministic simulation checks for hyperium/tonic (engines F and N).
//! One sub-command per property; see /verif/DESIGN.md.

#![allow(dead_code)]

mod alloc;
mod c01;
mod c02;
mod gen;
mod handlers;
mod loopback;
mod c03;
mod c04;
mod c08;
mod c09;
mod c13;
mod c14;
mod nharness;
mod nwire;
mod rawh2;
mod c16;
mod c17;
mod c18;
mod c05;
mod peer;
mod c06;
mod c07;
mod fdrive;
mod indep;
mod rawcodec;
mod seams;

pub mod pb {
    tonic::include_proto!("simpb");
}
pub mod nopkg {
    tonic::include_proto!("_");
}
pub mod rawsvc {
    include!(concat!(env!("OUT_DIR"), "/sim.Raw.rs"));
}

use simcore::{Property, Scenario};

#[global_allocator]
static GLOBAL: alloc::Counting = alloc::Counting;

const RVS_F: &[(&str, &str)] = &[
    ("tonic codec / status / metadata / client::Grpc / server::Grpc / generated code", "real"),
    ("tonic transport, hyper, h2, tower Buffer, axum", "not run in engine F"),
    ("executor", "simulator-owned (simcore::exec), no runtime"),
    ("network / HTTP body / message source", "simulated seams (SimBody, SimSource) driven by the tape"),
    ("flate2 / zstd", "real"),
    ("clock", "none needed"),
];

fn scn_c01() -> Scenario {
    Scenario {
        name: "F-roundtrip",
        engine: "F",
        run: c01::run,
        quick: 150_000,
        thorough: 3_000_000,
        grid: 0,
        what: "EncodeBody (client/server role, 4 encodings, raw/prost codec, buffer settings) under a drawn source-readiness schedule and under the all-Ready reference; bytes re-cut and fed with delays into Streaming",
    }
}

fn scn_c06_dec() -> Scenario {
    Scenario {
        name: "F-limit-decode",
        engine: "F",
        run: c06::run_decode,
        quick: 100_000,
        thorough: 2_000_000,
        grid: 0,
        what: "Streaming with a decoding limit: frames whose wire length is limit-1/limit/limit+1 (also compressed, also around the 4 MiB default), declared lengths up to 2^32-1 with a silent peer, counting allocator",
    }
}

fn scn_c06_enc() -> Scenario {
    Scenario {
        name: "F-limit-encode",
        engine: "F",
        run: c06::run_encode,
        quick: 100_000,
        thorough: 2_000_000,
        grid: 0,
        what: "EncodeBody with an encoding limit: an oversized message at any position; earlier messages buffered or flushed depending on source readiness and yield threshold",
    }
}

fn scn_enc_error() -> Scenario {
    Scenario {
        name: "F-encoder-error",
        engine: "F",
        run: c06::run_encoder_error,
        quick: 40_000,
        thorough: 1_200_000,
        grid: 0,
        what: "EncodeBody (client and server role, identity/gzip/deflate/zstd) over a codec that fails to serialize one message at any position after writing 0..20000 bytes of it: the wire carries exactly the earlier messages, whole, then one error status",
    }
}

fn scn_c06_4g() -> Scenario {
    Scenario {
        name: "F-encode-4gib",
        engine: "F",
        run: c06::run_encode_4gib,
        quick: 0,
        thorough: 8,
        grid: 0,
        what: "an encoder output of 2^32+1 untouched bytes must end the call with RESOURCE_EXHAUSTED",
    }
}

fn scn_c02_f() -> Scenario {
    Scenario {
        name: "F-loopback-calls",
        engine: "F",
        run: c02::run,
        quick: 60_000,
        thorough: 1_500_000,
        grid: 0,
        what: "generated client -> loopback (re-chunking, delaying bodies, wire tap) -> generated server with scripted handlers; 1..3 calls over the 4 shapes, 3 services (raw codec, prost with package, prost without package), consistent compression configs",
    }
}

const RVS_N: &[(&str, &str)] = &[
    ("tonic transport: Server, Channel, Reconnect, Buffer worker, GrpcTimeout, RecoverError, generated code, codecs", "real"),
    ("hyper, h2, tower, axum router", "real"),
    ("executor", "tokio current-thread runtime (FIFO run queue), select! seeded through Builder::rng_seed"),
    ("clock", "tokio paused clock (simulated; jumps to the next timer when idle)"),
    ("network", "simnet: in-memory byte streams; bytes per operation, stalls, back-pressure, kills drawn from the tape"),
    ("connector / listener", "scripted SimConnector / channel-fed incoming stream"),
    ("OS sockets, DNS, real time", "none"),
];

fn scn_n_calls() -> Scenario {
    Scenario { name: "N-multiplexed-calls", engine: "N", run: nwire::run_calls, quick: 40_000, thorough: 2_000_000, grid: 0, what: "real Server + 1..3 Channels over simnet (fragmentation, stalls, back-pressure, randomised h2 windows/frame size): 1..8 concurrent calls over 3 services and 4 shapes multiplexed on the connections, scripted handlers with virtual latencies/gaps; identity-channel oracle per tagged call" }
}
fn scn_n_calls_kill() -> Scenario {
    Scenario { name: "N-calls-connection-kill", engine: "N", run: nwire::run_calls_kill, quick: 20_000, thorough: 1_000_000, grid: 0, what: "fault-injecting configuration: the connection dies at a drawn byte offset while 1..5 calls are in flight; relaxed oracle (never success with wrong/missing data, items a prefix, clean end only after true OK, no hang)" }
}
fn scn_n_client_view() -> Scenario {
    Scenario { name: "N-wire-client-view", engine: "N", run: nwire::run_client_view, quick: 20_000, thorough: 1_000_000, grid: 0, what: "tonic Channel + generated client -> raw h2 server (h2 crate only): method, :path, :scheme, content-type, te, metadata and body exactly as the wire carries them" }
}
fn scn_n_server_view() -> Scenario {
    Scenario { name: "N-wire-server-view", engine: "N", run: nwire::run_server_view, quick: 20_000, thorough: 1_000_000, grid: 0, what: "raw h2 client (padded/unpadded -bin metadata) -> tonic Server with scripted handler: HTTP status, headers, DATA, trailers, END_STREAM placement and status fields exactly as the wire carries them" }
}
fn scn_n_hostile_server() -> Scenario {
    Scenario { name: "N-hostile-h2-server", engine: "N", run: nwire::run_hostile_server, quick: 15_000, thorough: 800_000, grid: 16, what: "raw h2 server answers a tonic Channel with real RST_STREAM(reason) before headers / after headers / mid-body (reasons 0..=15 enumerated first) or with an HTTP status and no grpc-status; mapping through the real hyper::Error path" }
}

fn props() -> Vec<Property> {
    vec![
    Property {
        id: "C02",
        title: "Client observes exactly the messages, metadata and status the server produced",
        scenarios: vec![scn_c02_f(), scn_n_calls(), scn_n_calls_kill(), scn_n_server_view(), Scenario { name: "F-foreign-to-client", engine: "F", run: c08::run_to_client, quick: 20_000, thorough: 600_000, grid: 0, what: "a foreign server peer answers a generated client with response headers, messages and trailers it composed itself (OK or error, also headers-then-error-trailers for unary calls): the caller's outcome and the metadata carried by an error" }],
        rule: "one run = 1..3 calls (shape, request messages+metadata, handler script: k messages then OK or Status(code,msg,details,metadata), possibly refused at call time) x compression config x codec buffer settings x readiness of sources and both bodies x re-chunking of both bodies; non-trivial = an error script, an injected Pending or a re-cut frame; distinct = distinct hash of all structural tape decisions",
        real_vs_stub: RVS_F.to_vec(),
        assumptions: vec!["fault-free and fault-injecting (connection kill) configurations are separate scenarios with separate oracles; under a kill a call may fail with any status but never succeeds with wrong or missing data", "engine N varies interleavings through the seams (transport readiness, stalls, windows, start offsets, handler gaps); tokio's run queue itself is FIFO"],
        required_probes: vec!["error-before-first-message-in-stream", "error-after-messages", "trailers-only-response", "status-after-data-on-wire", "concurrent-calls", "streams-multiplexed-on-one-connection", "connection-killed-during-calls"],
    },
    Property {
        id: "C01",
        title: "Message streams survive encode/decode unchanged under any chunking",
        scenarios: vec![scn_c01()],
        rule: "one run = (role, encoding, codec, encoder/decoder buffer settings, 0..8 messages with boundary-biased sizes) x source readiness pattern x chunking of the emitted bytes x body readiness pattern; non-trivial = at least one injected Pending or a cut inside the byte stream; distinct = distinct hash of all structural tape decisions",
        real_vs_stub: RVS_F.to_vec(),
        assumptions: vec!["flate2 write::* / zstd bulk are a faithful reference for inflating what tonic compressed", "per-response compression opt-out is exercised through server::Grpc in the C02/C05 loopback scenarios, not here"],
        required_probes: vec!["cut-inside-prefix", "cut-inside-compressed-payload", "pending-with-nonempty-buf", "zero-length-message", "message-larger-than-decoder-buffer", "cut-one-byte-chunks"],
    },
    Property {
        id: "C03",
        title: "Requests and responses on the wire are spec-conformant gRPC",
        scenarios: vec![scn_c01(), scn_c06_enc(), scn_enc_error(), scn_c02_f(), scn_n_client_view(), scn_n_server_view(), Scenario { name: "F-odd-proto-names", engine: "F", run: c03::run_odd_names, quick: 2_000, thorough: 20_000, grid: 0, what: "a prost-generated service whose proto names are not canonical (service HTTPecho_v2, method get_URL): the generated client posts to, and the generated server serves, /simpb.HTTPecho_v2/get_URL; NamedService::NAME is the proto identifier" }, Scenario { name: "N-unknown-path", engine: "N", run: nwire::run_unknown_path, quick: 6_000, thorough: 300_000, grid: 0, what: "raw h2 client -> tonic Server with three generated services: unknown method of a known service (generated fallback arm), unknown service and odd paths (router fallback): 200, content-type application/grpc, exactly one grpc-status 12, no body, no handler entered" }, Scenario { name: "F-origin-path", engine: "F", run: c03::run_origin, quick: 4_000, thorough: 150_000, grid: 0, what: "generated client built with_origin (with/without a path prefix, trailing slashes) in front of a foreign peer: :path keeps the prefix and ends in /package.Service/Method, POST, te, content-type, all four shapes" }],
        rule: "passive wire monitor on the C01/C06 (and loopback) runs: every emitted body is parsed by the independent decoder; non-trivial/distinct as in the host scenario",
        real_vs_stub: RVS_F.to_vec(),
        assumptions: vec!["'nothing after the trailers block' is judged the way hyper's HTTP/2 sender consumes a body (stops after trailers / error / None / end-stream flag)"],
        required_probes: vec!["encoder-emitted-several-data-frames", "client-wire-view", "server-wire-view", "origin-with-path-prefix"],
    },
    Property {
        id: "C04",
        title: "Status survives the header encoding; reading any headers is total",
        scenarios: vec![
            Scenario { name: "F-hostile-status", engine: "F", run: c04::run_headers, quick: 60_000, thorough: 4_500_000, grid: 0, what: "scripted server peer answers a generated client with arbitrary grpc-status / grpc-message / grpc-status-details-bin (valid, out of range, garbage, invalid percent-encoding, invalid UTF-8, invalid base64) in trailers or trailers-only headers, any chunking" },
            Scenario { name: "F-http-status", engine: "F", run: c04::run_http_status, quick: 4_000, thorough: 300_000, grid: 500, what: "HTTP status 100..=599 (enumerated completely first) with no grpc-status, with/without body and trailers" },
            Scenario { name: "F-status-code-bytes", engine: "F", run: c04::run_code_bytes, quick: 6_000, thorough: 360_000, grid: c04::CODE_GRID, what: "every 1-byte grpc-status value and every 2-byte value containing a digit (all legal header bytes), enumerated: only the canonical decimal codes may be read as a code" },
            Scenario { name: "F-reset", engine: "F", run: c04::run_reset, quick: 4_000, thorough: 300_000, grid: 16, what: "stream reset surfaced as an h2::Error body error, reasons 0..=15 enumerated first, before/after/inside messages" },
            Scenario { name: "F-request-reset", engine: "F", run: c04::run_request_reset, quick: 6_000, thorough: 300_000, grid: 14, what: "the request body of a client-streaming / bidi call fails under the generated server (RST_STREAM reasons 0..=13 enumerated first, or a lost connection) after 0..3 messages, possibly inside a frame: the handler sees an error with the code of the gRPC table, never a clean end; what it read is a prefix" },
            scn_c02_f(),
            scn_n_hostile_server(),
            scn_n_server_view(),
        ],
        rule: "one run = one call answered by a scripted peer with one header combination / HTTP status / reset reason x chunking x readiness (plus the C02 loopback runs sampling the status round trip); non-trivial = every hostile run; distinct = distinct hash of structural tape decisions",
        real_vs_stub: RVS_F.to_vec(),
        assumptions: vec![
            "the for-all-statuses round-trip clause is a pure function of the status; it is sampled by the loopback workload, not decided",
            "in engine F a reset is injected as a body error of type h2::Error (hyper would wrap it in hyper::Error; that path is engine N)",
            "HTTP/2 error codes the gRPC table leaves unmapped (STREAM_CLOSED, HTTP_1_1_REQUIRED, unknown) are not judged",
        ],
        required_probes: vec!["invalid-base64-details", "invalid-utf8-message", "real-h2-reset", "real-http-status", "http-error-with-non-grpc-body"],
    },
    Property {
        id: "C08",
        title: "User metadata crosses the wire intact; protocol headers cannot be forged",
        scenarios: vec![
            scn_c02_f(),
            scn_n_client_view(),
            scn_n_server_view(),
            Scenario { name: "F-foreign-to-server", engine: "F", run: c08::run_to_server, quick: 40_000, thorough: 2_400_000, grid: 0, what: "foreign client peer sends padded/unpadded base64 -bin values and repeated keys; the handler reads them through the typed accessors" },
            Scenario { name: "F-foreign-to-client", engine: "F", run: c08::run_to_client, quick: 40_000, thorough: 2_400_000, grid: 0, what: "foreign server peer sends metadata in response headers, trailers and error statuses (padded/unpadded); the caller reads them through the typed accessors" },
            Scenario { name: "F-status-in-error-chain", engine: "F", run: c08::run_status_in_chain, quick: 20_000, thorough: 600_000, grid: 0, what: "a Status with details and metadata behind 1..3 wrapper errors (Error::source), handed to Status::from_error or surfacing as the body error of a response stream: code, message, details and every metadata entry survive" },
        ],
        rule: "one run = metadata maps (ASCII/binary, repeated keys, reserved-name canaries, byte strings of every length mod 3) on requests, responses, trailers and error statuses crossing tonic<->tonic or tonic<->foreign peer; non-trivial = at least one metadata entry or error status; distinct = distinct hash of structural tape decisions",
        real_vs_stub: RVS_F.to_vec(),
        assumptions: vec!["the accessor clause (typed accessors never confuse ASCII and binary) is a pure function of a map: it is sampled on every received map, not decided"],
        required_probes: vec!["padded-base64-from-peer"],
    },
    Property {
        id: "C05",
        title: "Compression is used only as negotiated and configured",
        scenarios: vec![
            Scenario { name: "F-negotiation-grid", engine: "F", run: c05::run_grid, quick: 12_000, thorough: 1_200_000, grid: c05::GRID, what: "tonic client <-> tonic server over the loopback: all 8192 (server accept, server send, client send, client accept, call shape) configurations enumerated first (enable order drawn), then random cells; all four call shapes; per-response opt-out" },
            Scenario { name: "F-hostile-request", engine: "F", run: c05::run_hostile_request, quick: 30_000, thorough: 1_800_000, grid: 0, what: "foreign client peer -> tonic server: arbitrary grpc-accept-encoding lists (spacing, unknown tokens, duplicates, case, non-ASCII), arbitrary grpc-encoding values, flag 0/1 frames" },
            Scenario { name: "F-hostile-response", engine: "F", run: c05::run_hostile_response, quick: 20_000, thorough: 1_200_000, grid: 0, what: "foreign server peer -> tonic client: arbitrary grpc-encoding on the response, flag 0/1 frames" },
        ],
        rule: "one run = one call under one (server accept/send, client send/accept) configuration or one hostile header combination x chunking x readiness; every run is non-trivial; distinct = distinct hash of structural tape decisions; the first 8192 grid runs enumerate configuration x call shape completely",
        real_vs_stub: RVS_F.to_vec(),
        assumptions: vec!["whether a server must compress when it could is not prescribed by the property (probe only)", "offered encodings = comma-separated, trimmed, case-sensitive tokens of grpc-accept-encoding"],
        required_probes: vec!["request-encoding-refused", "response-compressed", "compressed-flag-without-encoding", "response-encoding-refused"],
    },
    Property {
        id: "C06",
        title: "Message size limits are enforced exactly and without collateral loss",
        scenarios: vec![scn_c06_dec(), scn_c06_enc(), scn_c06_4g(), Scenario { name: "F-limit-plumbing", engine: "F", run: c06::run_plumbing, quick: 60_000, thorough: 3_600_000, grid: 0, what: "limits through the generated client/server plumbing over the loopback: independent (asymmetric) decoding/encoding limits on both sides, all four call shapes, message sizes around the limits; reference predicts where the first refusal happens" }],
        rule: "one run = a stream of small messages with one probe message whose wire length sits at limit-1/limit/limit+1 (or a declared length with no payload) x chunking x readiness x role/direction; every run is non-trivial; distinct = distinct hash of all structural tape decisions",
        real_vs_stub: RVS_F.to_vec(),
        assumptions: vec![
            "for compressed outgoing messages the harness cannot know tonic's exact compressed length, so the accept/refuse verdict is judged only away from the boundary (conservation is judged always)",
            "allocation is observed with a counting global allocator: no single allocation >= 1 MiB while refusing a declared length >= 1 MiB under a limit <= 64 KiB",
        ],
        required_probes: vec!["limit-exactly-hit", "declared-length-without-payload", "refused-without-payload", "allocation-watched", "oversized-candidate-not-first", "oversized-candidate-first", "encode-over-limit", "encode-within-limit", "plumbing-request-over-limit", "plumbing-response-over-limit", "plumbing-within-limits"],
    },
    Property {
        id: "C09",
        title: "Deadlines: faithful grpc-timeout encoding and shortest-deadline enforcement",
        scenarios: vec![
            Scenario { name: "N-deadline", engine: "N", run: c09::run_deadline, quick: 60_000, thorough: 3_000_000, grid: 0, what: "real tonic Server (Server::timeout) + Channel (Endpoint::timeout) + Request::set_timeout over simnet on the paused clock; handler latency on a grid around D = min of the configured deadlines (D-50ms .. D+-us .. D+5s, never)" },
            Scenario { name: "N-deadline-silent-peer", engine: "N", run: c09::run_deadline_silent_peer, quick: 15_000, thorough: 600_000, grid: 0, what: "tonic Channel with Request::set_timeout (with, without, shorter or longer Endpoint::timeout; lazy/eager; unary/streaming) against a raw h2 server that reads the request and never answers: the caller's own deadline must cut the call off locally" },
            Scenario { name: "F-timeout-header", engine: "F", run: c09::run_header, quick: 60_000, thorough: 3_000_000, grid: 0, what: "what a foreign server peer receives as grpc-timeout for Request::set_timeout(d), durations biased to the unit-switch boundaries up to 99999999 hours" },
            Scenario { name: "F-timeout-parse", engine: "F", run: c09::run_parse, quick: 40_000, thorough: 2_400_000, grid: c09::PARSE_GRID, what: "the server's grpc-timeout parser through hook H2: every unit x 1..8 digits x {all zeros, all nines, leading zeros, random} enumerated first, then malformed strings (9+ digits, no digits, no unit, wrong unit, signs, spaces, non-ASCII, random bytes)" },
        ],
        rule: "one run = one (caller timeout, server timeout, endpoint timeout, handler latency) tuple in virtual time, or one duration / header string; non-trivial = every run; distinct = distinct hash of structural tape decisions",
        real_vs_stub: RVS_N.to_vec(),
        assumptions: vec![
            "guard band g = 2 ms around the deadline (tokio's timer wheel rounds up to 1 ms; the handler is polled before the sleep); the simulated network adds no virtual delay in this scenario",
            "the grammar clauses (encoding, parsing) are pure functions of their input: sampled structurally through a foreign peer / hook H2, not decided",
        ],
        required_probes: vec!["deadline-against-silent-peer", "malformed-header-with-configured-timeout", "finishes-before-deadline", "cut-off-at-deadline", "inside-guard-band", "unit-coarser-than-ns", "parse-conformant", "parse-malformed"],
    },
    Property {
        id: "C13",
        title: "Graceful shutdown loses no accepted call",
        scenarios: vec![Scenario { name: "N-graceful-shutdown", engine: "N", run: c13::run, quick: 30_000, thorough: 1_500_000, grid: 0, what: "real serve_with_incoming_shutdown with 0..3 connections and 1..6 unary/streaming/bidi calls (virtual latencies and gaps); the signal fires at a drawn virtual instant or right after the k-th handler entry; a further connection is offered strictly after the signal; clients keep or drop their channels" }],
        rule: "one run = one placement of the signal relative to the phases of the calls x connections x network fragmentation/stalls; every run non-trivial; distinct = distinct hash of structural tape decisions and ordered network-event kinds",
        real_vs_stub: RVS_N.to_vec(),
        assumptions: vec![
            "accepted = the call's handler was entered (recorded by the handler)",
            "that connections do close after their last in-flight call is recorded as a probe, not judged (the property does not promise it); liveness is judged as stated: once all connections have closed the serve future resolves (within 300 virtual seconds)",
        ],
        required_probes: vec!["signal-before-any-handler-entry", "signal-with-calls-in-flight-and-calls-not-yet-accepted", "accepted-call-judged", "call-not-accepted", "serve-resolved"],
    },
    Property {
        id: "C14",
        title: "A channel always answers and recovers when the peer comes back",
        scenarios: vec![
            Scenario { name: "N-connect-scripts", engine: "N", run: c14::run_script, quick: 30_000, thorough: 1_500_000, grid: c14::GRID, what: "fault scripts over {next connect fails, next connect succeeds, established connection dropped by the peer} x {lazy, eager}: all 726 scripts of length <= 5 enumerated first, then random scripts up to length 14; a call (sometimes two back-to-back) at every quiescent point; real Channel (Buffer, Reconnect, hyper/h2 client) and Server" },
            Scenario { name: "N-midcall-death", engine: "N", run: c14::run_midcall, quick: 20_000, thorough: 1_000_000, grid: 0, what: "relaxed configuration: the first connection dies at a drawn byte offset (inside the HTTP/2 handshake, inside the request, inside the response) during a unary or server-streaming call; then calls at quiescent points must recover" },
            Scenario { name: "N-graceful-goaway", engine: "N", run: c14::run_goaway, quick: 10_000, thorough: 500_000, grid: 0, what: "the server retires connections gracefully (GOAWAY after max_connection_age 5 ms..1 s) while the channel is idle; 2..5 rounds of calls at quiescent points, lazy/eager, with/without client keep-alive: every round's call (at the latest the second attempt) succeeds on a fresh connection" },
            Scenario { name: "N-balanced-channel", engine: "N", run: c14::run_balanced, quick: 10_000, thorough: 500_000, grid: 0, what: "a balanced channel (tower p2c Balance over one lazily connected endpoint, as Channel::balance_channel builds; hook H4 supplies the simulated connector; more endpoints would bring in p2c's entropy-seeded random choice) under a script of failing/succeeding attempts and killed connections: no call hangs, failures are UNAVAILABLE and never outnumber the failed attempts, and the channel recovers once attempts succeed" },
            Scenario { name: "N-connect-timeout", engine: "N", run: c14::run_connect_timeout, quick: 4_000, thorough: 100_000, grid: 0, what: "Endpoint::connect_timeout (50 ms / 2 s) against a connection attempt that never completes or completes too late, eager and lazy channels over the simulated connector: the attempt is given up after the timeout (definite error, no hang) and the next call succeeds" },
            Scenario { name: "N-uri-without-scheme", engine: "N", run: c14::run_uri_without_scheme, quick: 1_000, thorough: 20_000, grid: 0, what: "an endpoint URI without a scheme (parses as an authority): eager connect fails or every call gets the same definite error; no hang, no panic in the channel's background task" },
        ],
        rule: "one run = one fault script (or one kill offset) x lazy/eager x network fragmentation; every run non-trivial; distinct = distinct hash of structural tape decisions and of the ordered network-event kinds; the first 726 runs enumerate all scripts of length <= 5",
        real_vs_stub: RVS_N.to_vec(),
        assumptions: vec![
            "calls are issued at quiescent points (1 virtual second after each fault), as the property states",
            "connector failures must surface as UNAVAILABLE; failures that are not connector failures (connection dying mid-call, handshake cut) are judged with the relaxed oracle: definite result, no hang, no panic, recovery at the next quiescent call (two attempts allowed)",
        ],
        required_probes: vec!["eager-initial-failure", "established-connection-dropped", "connect-failure-reported-to-triggering-call", "script-completed", "connection-died-during-call", "recovered-after-midcall-death"],
    },
    Property {
        id: "C16",
        title: "grpc-web server layer translates requests and responses losslessly",
        scenarios: vec![Scenario { name: "F-web-server-layer", engine: "F", run: c16::run, quick: 150_000, thorough: 9_000_000, grid: 0, what: "GrpcWebLayer around a scripted inner service: binary/base64-text request bodies cut anywhere (inside a base64 quantum, 1-byte chunks), inner gRPC responses cut anywhere with arbitrary trailers or trailers-only, Accept binary/text/absent/other, and the (method, version, content-type) status-code cases" }],
        rule: "one run = one outer request (kind, method, version, content-type, accept, payload) x chunking of the request body x inner response (frames, chunking, trailers) x readiness; every run non-trivial; distinct = distinct hash of structural tape decisions",
        real_vs_stub: vec![("tonic-web GrpcWebLayer/GrpcWebService/GrpcWebCall", "real"), ("inner gRPC service", "scripted stub (records request, answers scripted frames)"), ("outer HTTP server / hyper", "not run: the layer is called directly as a tower::Service"), ("executor", "simulator-owned"), ("bodies", "SimBody seams")],
        assumptions: vec!["grpc-web-text responses are decoded as a concatenation of individually padded base64 segments (as browsers' grpc-web clients do)"],
        required_probes: vec!["text-request", "text-response", "non-post-grpc-web", "other-http1", "other-http2-passthrough", "cut-inside-prefix"],
    },
    Property {
        id: "C17",
        title: "grpc-web client layer recovers messages and full trailers under any chunking",
        scenarios: vec![Scenario { name: "F-web-client-layer", engine: "F", run: c17::run, quick: 200_000, thorough: 12_000_000, grid: 0, what: "GrpcWebClientService in front of a scripted grpc-web server: message frames + trailers frame in any chunking (inside frame headers, inside the trailers frame, message and trailers in one chunk, 1-byte chunks), truncated at any byte, malformed variants" }],
        rule: "one run = one grpc-web response body (0..6 messages + trailers frame with values containing ':' and spaces, repeated names) x chunking x optional truncation/malformation x readiness; every run non-trivial; distinct = distinct hash of structural tape decisions",
        real_vs_stub: vec![("tonic-web GrpcWebClientService / GrpcWebCall (client decode and encode paths)", "real"), ("grpc-web server", "scripted stub with an independent grpc-web encoder"), ("tonic client::Grpc above the layer", "not run here: the translated body is consumed poll by poll"), ("executor", "simulator-owned"), ("bodies", "SimBody seams")],
        assumptions: vec!["a cut exactly at a frame boundary (trailers frame missing altogether) is not judged: the property speaks of cuts inside a frame"],
        required_probes: vec!["cut-inside-trailers-frame-header", "cut-inside-trailers-block", "message-and-trailers-in-one-chunk"],
    },
    Property {
        id: "C18",
        title: "Health service reports the latest status to Check and Watch",
        scenarios: vec![Scenario { name: "F-health-histories", engine: "F", run: c18::run, quick: 40_000, thorough: 3_000_000, grid: 0, what: "histories of set/clear/check/watch/next over services {\"\",a,b} (<=12, sometimes <=30 operations) issued as tasks on the simulator's executor through the generated HealthClient -> HealthServer in-process; blocked watchers stay pending while later operations run; final drain of every watcher" }],
        rule: "one run = one operation history x scheduler choices (which runnable task is polled next, how many steps between operations); every run non-trivial; distinct = distinct hash of structural tape decisions",
        real_vs_stub: vec![("tonic-health HealthReporter/HealthService/WatchStream, generated HealthClient/HealthServer, tonic codec", "real"), ("tokio::sync::{RwLock, watch}", "real (trusted base)"), ("executor", "simulator-owned cooperative executor (engine F); preemptive thread schedules are engine M (Miri), thorough tier"), ("transport", "in-process call, no HTTP/2")],
        assumptions: vec!["'first reports the status current at subscription' is read as: the status current at some instant between subscription and the first read (the reference tokio watch semantics)", "cooperative interleavings only in engine F: tasks interleave at await points"],
        required_probes: vec!["check-registered", "check-not-found", "watch-first-report", "watch-ended-by-clear", "watch-converged-then-pending"],
    },
    Property {
        id: "C07",
        title: "Hostile or truncated input ends a stream with one error, never a hang or panic",
        scenarios: vec![Scenario {
            name: "F-decode-hostile",
            engine: "F",
            run: c07::run,
            quick: 300_000,
            thorough: 6_000_000,
            grid: 0,
            what: "mutated/random byte strings in any chunking with trailers and injected body errors into tonic::codec::Streaming; polled past the first terminal event",
        }],
        rule: "one run = one generated byte string (valid stream + 0..3 mutations, or random bytes) x chunking x readiness pattern x trailers x optional body error/stall; non-trivial = the input has a framing defect or a body error was injected; distinct = distinct hash of all structural tape decisions",
        real_vs_stub: RVS_F.to_vec(),
        assumptions: vec![
            "flate2 write::* decoders and zstd bulk API are a faithful reference for the read::* adaptors tonic uses",
            "a compressed frame the independent inflater rejects is not judged for content (only framing alignment)",
        ],
        required_probes: vec!["cut-inside-prefix", "cut-one-byte-chunks", "body-polled-after-end"],
    },
    ]
}

fn main() {
    // debugging aid only: TSIM_LOG=trace prints tonic/hyper/h2 tracing output (never set by ./check)
    if let Ok(f) = std::env::var("TSIM_LOG") {
        let _ = tracing_subscriber::fmt().with_env_filter(f).without_time().with_writer(std::io::stdout).try_init();
    }
    simcore::runner::set_run_prelude(|| {
        rawcodec::reset();
        c02::reset_client_clone_mode();
    });
    simcore::main_with(props());
}
