//! simnet — the engine-N network seam: in-memory byte streams whose every decision (how many
//! bytes an operation transfers, Pending + virtual-time stall, back-pressure, kill) is drawn from
//! the run's `Sim`, plus a scripted connector and the listener side.  Runs on a tokio
//! current-thread runtime with a paused clock; nothing here touches a socket or the wall clock.

use simcore::Sim;
use std::collections::VecDeque;
use std::future::Future;
use std::io;
use std::pin::Pin;
use std::sync::{Arc, Mutex};
use std::task::{Context, Poll, Waker};
use std::time::Duration;
use tokio::io::{AsyncRead, AsyncWrite, ReadBuf};
use tokio::sync::mpsc;

#[derive(Clone, Copy, Debug, PartialEq, Eq)]
pub enum Side {
    Client,
    Server,
}

#[derive(Clone, Copy, Debug, PartialEq, Eq)]
pub enum KillKind {
    /// reads fail with ConnectionReset, writes with BrokenPipe
    Reset,
    /// reads see EOF (buffered data lost), writes fail with BrokenPipe
    Eof,
    /// a silent partition: nothing is delivered any more and nobody is told — reads stay pending
    /// for ever, writes are accepted and vanish (only a keep-alive or a deadline can notice)
    Blackhole,
}

#[derive(Clone, Copy, Debug)]
pub struct NetCfg {
    /// bytes one direction may hold before writes return Pending (back-pressure)
    pub cap: usize,
    /// fragment reads/writes (short I/O) or always transfer everything
    pub frag: bool,
    /// percent of operations that first stall for a drawn virtual-time delay
    pub stall_pct: u64,
    pub max_stall_us: u64,
    /// capture every byte per direction (C15 canary scan, wire views)
    pub capture: bool,
    /// include the first bytes of each write in the event trace (off for TLS: ciphertext and
    /// handshake randoms differ between executions, lengths do not)
    pub trace_bytes: bool,
}

impl NetCfg {
    pub fn draw(sim: &Sim) -> NetCfg {
        NetCfg {
            // Like a real TCP path, the pipe buffers at least as much as the HTTP/2 flow-control
            // windows allow in flight.  (With a smaller pipe two h2 endpoints that are both
            // write-blocked stop reading and dead-lock each other — seen in simulation, a property
            // of the h2 crate under an unrealistic transport, not of tonic.)
            cap: sim.pick(&[256 * 1024usize, 1 << 20, 4 << 20]),
            frag: sim.chance(3, 4),
            stall_pct: sim.pick(&[0u64, 0, 5, 20]),
            max_stall_us: sim.pick(&[10u64, 1_000, 20_000]),
            capture: false,
            trace_bytes: true,
        }
    }
    pub fn ideal() -> NetCfg {
        NetCfg { cap: 1 << 20, frag: false, stall_pct: 0, max_stall_us: 0, capture: false, trace_bytes: true }
    }
}

#[derive(Default)]
struct Dir {
    buf: VecDeque<u8>,
    writer_closed: bool,
    reader_gone: bool,
    killed: Option<KillKind>,
    read_waker: Option<Waker>,
    write_waker: Option<Waker>,
    bytes: u64,
    captured: Vec<u8>,
}

impl Dir {
    fn wake_all(&mut self) {
        if let Some(w) = self.read_waker.take() {
            w.wake();
        }
        if let Some(w) = self.write_waker.take() {
            w.wake();
        }
    }
}

pub struct ConnState {
    pub id: usize,
    c2s: Dir,
    s2c: Dir,
    pub client_dropped_at: Option<Duration>,
    pub server_dropped_at: Option<Duration>,
    /// kill the connection once this many bytes (both directions) have been written
    pub kill_at_bytes: Option<(u64, KillKind)>,
    pub killed_at: Option<Duration>,
    /// global event sequence number at which the server end was dropped
    pub server_dropped_seq: Option<u64>,
    seq: Arc<std::sync::atomic::AtomicU64>,
}

impl ConnState {
    pub fn bytes_c2s(&self) -> u64 {
        self.c2s.bytes
    }
    pub fn bytes_s2c(&self) -> u64 {
        self.s2c.bytes
    }
    pub fn captured_c2s(&self) -> &[u8] {
        &self.c2s.captured
    }
    pub fn captured_s2c(&self) -> &[u8] {
        &self.s2c.captured
    }
    pub fn is_killed(&self) -> bool {
        self.c2s.killed.is_some()
    }
    fn kill(&mut self, kind: KillKind, now: Duration) {
        if self.c2s.killed.is_none() {
            self.c2s.killed = Some(kind);
            self.s2c.killed = Some(kind);
            self.c2s.buf.clear();
            self.s2c.buf.clear();
            self.killed_at = Some(now);
            self.c2s.wake_all();
            self.s2c.wake_all();
        }
    }
}

#[derive(Clone)]
pub struct SimNet {
    pub sim: Sim,
    pub cfg: NetCfg,
    conns: Arc<Mutex<Vec<Arc<Mutex<ConnState>>>>>,
    t0: tokio::time::Instant,
    /// armed fault: the next connection created dies after this many bytes
    next_conn_kill: Arc<Mutex<Option<(u64, KillKind)>>>,
    seq: Arc<std::sync::atomic::AtomicU64>,
}

impl SimNet {
    /// Global event sequence number (orders events that share a virtual instant).
    pub fn tick(&self) -> u64 {
        self.seq.fetch_add(1, std::sync::atomic::Ordering::SeqCst) + 1
    }

    /// Must be created inside the runtime (reads the simulated clock).
    pub fn new(sim: &Sim, cfg: NetCfg) -> SimNet {
        SimNet { sim: sim.clone(), cfg, conns: Arc::new(Mutex::new(vec![])), t0: tokio::time::Instant::now(), next_conn_kill: Arc::new(Mutex::new(None)), seq: Arc::new(std::sync::atomic::AtomicU64::new(0)) }
    }

    pub fn now(&self) -> Duration {
        self.t0.elapsed()
    }

    pub fn arm_kill_on_next_connection(&self, at_bytes: u64, kind: KillKind) {
        *self.next_conn_kill.lock().unwrap() = Some((at_bytes, kind));
    }

    pub fn pair(&self) -> (SimStream, SimStream) {
        let mut conns = self.conns.lock().unwrap();
        let id = conns.len();
        let armed = self.next_conn_kill.lock().unwrap().take();
        let st = Arc::new(Mutex::new(ConnState { id, c2s: Dir::default(), s2c: Dir::default(), client_dropped_at: None, server_dropped_at: None, kill_at_bytes: armed, killed_at: None, server_dropped_seq: None, seq: self.seq.clone() }));
        conns.push(st.clone());
        let mk = |side| SimStream { sim: self.sim.clone(), conn: st.clone(), side, stall: None, just_stalled: false, cfg: self.cfg, t0: self.t0, id };
        (mk(Side::Client), mk(Side::Server))
    }

    pub fn conn(&self, id: usize) -> Arc<Mutex<ConnState>> {
        self.conns.lock().unwrap()[id].clone()
    }

    pub fn n_conns(&self) -> usize {
        self.conns.lock().unwrap().len()
    }

    pub fn kill(&self, id: usize, kind: KillKind) {
        let c = self.conn(id);
        let now = self.now();
        c.lock().unwrap().kill(kind, now);
        self.sim.fault("connection-kill");
        self.sim.ev(|| format!("t={:?} net: connection {id} killed ({kind:?})", now));
    }

    /// All server-side stream ends dropped?
    pub fn all_server_ends_dropped(&self) -> bool {
        self.conns.lock().unwrap().iter().all(|c| c.lock().unwrap().server_dropped_at.is_some())
    }

    pub fn server_drop_seqs(&self) -> Vec<Option<u64>> {
        self.conns.lock().unwrap().iter().map(|c| c.lock().unwrap().server_dropped_seq).collect()
    }

    pub fn server_drop_times(&self) -> Vec<Option<Duration>> {
        self.conns.lock().unwrap().iter().map(|c| c.lock().unwrap().server_dropped_at).collect()
    }
}

pub struct SimStream {
    sim: Sim,
    conn: Arc<Mutex<ConnState>>,
    side: Side,
    stall: Option<Pin<Box<tokio::time::Sleep>>>,
    just_stalled: bool,
    cfg: NetCfg,
    t0: tokio::time::Instant,
    pub id: usize,
}

impl SimStream {
    pub fn conn_id(&self) -> usize {
        self.id
    }

    /// Returns Pending while a drawn stall is in progress.
    fn maybe_stall(&mut self, cx: &mut Context<'_>, what: &'static str) -> Poll<()> {
        if let Some(s) = self.stall.as_mut() {
            match s.as_mut().poll(cx) {
                Poll::Pending => return Poll::Pending,
                Poll::Ready(()) => {
                    self.stall = None;
                    self.just_stalled = true;
                    return Poll::Ready(());
                }
            }
        }
        if self.just_stalled {
            self.just_stalled = false;
            return Poll::Ready(());
        }
        if self.cfg.stall_pct > 0 && self.sim.chance(self.cfg.stall_pct, 100) {
            let us = self.sim.range(1, self.cfg.max_stall_us.max(1));
            self.sim.fault(what);
            let mut s = Box::pin(tokio::time::sleep(Duration::from_micros(us)));
            match s.as_mut().poll(cx) {
                Poll::Pending => {
                    self.stall = Some(s);
                    return Poll::Pending;
                }
                Poll::Ready(()) => {}
            }
        }
        Poll::Ready(())
    }
}

#[derive(Clone, Debug)]
pub struct SimConnInfo {
    pub conn_id: usize,
}

impl tonic::transport::server::Connected for SimStream {
    type ConnectInfo = SimConnInfo;
    fn connect_info(&self) -> SimConnInfo {
        SimConnInfo { conn_id: self.id }
    }
}

impl AsyncRead for SimStream {
    fn poll_read(mut self: Pin<&mut Self>, cx: &mut Context<'_>, buf: &mut ReadBuf<'_>) -> Poll<io::Result<()>> {
        let this = &mut *self;
        this.sim.step();
        if this.maybe_stall(cx, "net-read-stall").is_pending() {
            return Poll::Pending;
        }
        let mut c = this.conn.lock().unwrap();
        let side = this.side;
        let d = if side == Side::Client { &mut c.s2c } else { &mut c.c2s };
        if let Some(k) = d.killed {
            return match k {
                KillKind::Reset => Poll::Ready(Err(io::Error::new(io::ErrorKind::ConnectionReset, "simulated connection reset"))),
                KillKind::Eof => Poll::Ready(Ok(())),
                KillKind::Blackhole => {
                    this.sim.probe("net-read-blackholed");
                    Poll::Pending
                }
            };
        }
        if d.buf.is_empty() {
            if d.writer_closed {
                let (id, t) = (this.id, this.t0.elapsed());
                this.sim.ev(|| format!("t={t:?} net[{id}] {side:?} read EOF"));
                return Poll::Ready(Ok(())); // EOF
            }
            d.read_waker = Some(cx.waker().clone());
            this.sim.probe("net-read-pending-empty");
            return Poll::Pending;
        }
        let avail = d.buf.len().min(buf.remaining());
        if avail == 0 {
            return Poll::Ready(Ok(()));
        }
        let n = if !this.cfg.frag || avail == 1 {
            avail
        } else {
            match this.sim.weighted(&[6, 1, 3]) {
                0 => avail,
                1 => 1,
                _ => this.sim.range(1, avail as u64) as usize,
            }
        };
        if n < avail {
            this.sim.fault("net-short-read");
        }
        let (a, b) = d.buf.as_slices();
        if n <= a.len() {
            buf.put_slice(&a[..n]);
        } else {
            buf.put_slice(a);
            buf.put_slice(&b[..n - a.len()]);
        }
        d.buf.drain(..n);
        if let Some(w) = d.write_waker.take() {
            w.wake();
        }
        this.sim.mark(0x10 + (side == Side::Server) as u64);
        let (id, t) = (this.id, this.t0.elapsed());
        this.sim.ev(|| format!("t={t:?} net[{id}] {side:?} read {n}B"));
        Poll::Ready(Ok(()))
    }
}

impl AsyncWrite for SimStream {
    fn poll_write(mut self: Pin<&mut Self>, cx: &mut Context<'_>, data: &[u8]) -> Poll<io::Result<usize>> {
        let this = &mut *self;
        this.sim.step();
        if this.maybe_stall(cx, "net-write-stall").is_pending() {
            return Poll::Pending;
        }
        let now = this.t0.elapsed();
        let mut c = this.conn.lock().unwrap();
        let side = this.side;
        let cap = this.cfg.cap;
        let total_before = c.c2s.bytes + c.s2c.bytes;
        if let Some((at, kind)) = c.kill_at_bytes {
            if total_before >= at {
                c.kill(kind, now);
                this.sim.fault("connection-kill");
                this.sim.ev(|| format!("t={now:?} net: connection {} killed at byte {total_before} ({kind:?})", c.id));
            }
        }
        let d = if side == Side::Client { &mut c.c2s } else { &mut c.s2c };
        if d.killed == Some(KillKind::Blackhole) {
            let (id, n) = (this.id, data.len());
            this.sim.ev(|| format!("t={now:?} net[{id}] {side:?} write {n}B -> vanishes (blackholed)"));
            return Poll::Ready(Ok(data.len()));
        }
        if d.killed.is_some() || d.reader_gone {
            let (id, k, g) = (this.id, d.killed, d.reader_gone);
            this.sim.ev(|| format!("t={now:?} net[{id}] {side:?} write -> BrokenPipe (killed={k:?} reader_gone={g})"));
            return Poll::Ready(Err(io::Error::new(io::ErrorKind::BrokenPipe, "simulated broken pipe")));
        }
        if d.writer_closed {
            return Poll::Ready(Err(io::Error::new(io::ErrorKind::BrokenPipe, "write after shutdown")));
        }
        if data.is_empty() {
            return Poll::Ready(Ok(0));
        }
        let room = cap.saturating_sub(d.buf.len());
        if room == 0 {
            this.sim.fault("net-backpressure");
            d.write_waker = Some(cx.waker().clone());
            return Poll::Pending;
        }
        let avail = data.len().min(room);
        let n = if !this.cfg.frag || avail == 1 {
            avail
        } else {
            match this.sim.weighted(&[6, 1, 3]) {
                0 => avail,
                1 => 1,
                _ => this.sim.range(1, avail as u64) as usize,
            }
        };
        if n < data.len() {
            this.sim.fault("net-short-write");
        }
        d.buf.extend(&data[..n]);
        d.bytes += n as u64;
        if this.cfg.capture {
            d.captured.extend_from_slice(&data[..n]);
        }
        if let Some(w) = d.read_waker.take() {
            w.wake();
        }
        this.sim.mark(0x20 + (side == Side::Server) as u64);
        let id = this.id;
        let tb = this.cfg.trace_bytes;
        this.sim.ev(|| format!("t={now:?} net[{id}] {side:?} write {n}B of {}B {}", data.len(), if tb { hex(&data[..n.min(24)]) } else { String::new() }));
        Poll::Ready(Ok(n))
    }

    fn poll_flush(self: Pin<&mut Self>, _cx: &mut Context<'_>) -> Poll<io::Result<()>> {
        Poll::Ready(Ok(()))
    }

    fn poll_shutdown(self: Pin<&mut Self>, _cx: &mut Context<'_>) -> Poll<io::Result<()>> {
        let (id, side, t) = (self.id, self.side, self.t0.elapsed());
        self.sim.ev(|| format!("t={t:?} net[{id}] {side:?} shutdown(write)"));
        let mut c = self.conn.lock().unwrap();
        let d = if self.side == Side::Client { &mut c.c2s } else { &mut c.s2c };
        d.writer_closed = true;
        if let Some(w) = d.read_waker.take() {
            w.wake();
        }
        Poll::Ready(Ok(()))
    }
}

impl Drop for SimStream {
    fn drop(&mut self) {
        let now = self.t0.elapsed();
        let mut c = match self.conn.lock() {
            Ok(c) => c,
            Err(p) => p.into_inner(),
        };
        let id = c.id;
        match self.side {
            Side::Client => {
                c.client_dropped_at = Some(now);
                c.c2s.writer_closed = true;
                c.s2c.reader_gone = true;
            }
            Side::Server => {
                c.server_dropped_at = Some(now);
                c.server_dropped_seq = Some(c.seq.fetch_add(1, std::sync::atomic::Ordering::SeqCst) + 1);
                c.s2c.writer_closed = true;
                c.c2s.reader_gone = true;
            }
        }
        c.c2s.wake_all();
        c.s2c.wake_all();
        let side = self.side;
        let bt = std::env::var("SIMNET_DROP_BT").is_ok();
        self.sim.ev(|| format!("t={now:?} net: {side:?} end of connection {id} dropped{}", if bt { format!("\n{}", std::backtrace::Backtrace::force_capture()) } else { String::new() }));
        self.sim.mark(0x30 + (side == Side::Server) as u64);
    }
}

// ------------------------------------------------------------------------------------------------
// connector / listener

#[derive(Clone, Debug, PartialEq, Eq)]
pub enum ConnectStep {
    Fail(io::ErrorKind),
    Ok { delay_us: u64 },
}

#[derive(Clone, Debug)]
pub struct Attempt {
    pub at: Duration,
    pub step: ConnectStep,
    pub conn_id: Option<usize>,
    /// authority the attempt was made to (which endpoint of a balanced channel)
    pub host: String,
}

#[derive(Clone)]
pub struct SimConnector {
    pub net: SimNet,
    pub script: Arc<Mutex<VecDeque<ConnectStep>>>,
    pub attempts: Arc<Mutex<Vec<Attempt>>>,
    /// hosts that are gone for good: every attempt to one is refused, whatever the script says
    pub dead_hosts: Arc<Mutex<Vec<String>>>,
    accept_tx: mpsc::UnboundedSender<SimStream>,
}

impl SimConnector {
    /// Returns the connector and the receiving end on which server-side streams appear.
    pub fn new(net: &SimNet, script: Vec<ConnectStep>) -> (SimConnector, mpsc::UnboundedReceiver<SimStream>) {
        let (tx, rx) = mpsc::unbounded_channel();
        (SimConnector { net: net.clone(), script: Arc::new(Mutex::new(script.into())), attempts: Arc::new(Mutex::new(vec![])), dead_hosts: Arc::new(Mutex::new(vec![])), accept_tx: tx }, rx)
    }
    pub fn n_attempts(&self) -> usize {
        self.attempts.lock().unwrap().len()
    }
    pub fn push_step(&self, s: ConnectStep) {
        self.script.lock().unwrap().push_back(s);
    }
}

impl tower_service::Service<http::Uri> for SimConnector {
    type Response = hyper_util::rt::TokioIo<SimStream>;
    type Error = io::Error;
    type Future = Pin<Box<dyn Future<Output = Result<Self::Response, io::Error>> + Send>>;

    fn poll_ready(&mut self, _cx: &mut Context<'_>) -> Poll<Result<(), io::Error>> {
        Poll::Ready(Ok(()))
    }

    fn call(&mut self, uri: http::Uri) -> Self::Future {
        let dead = self.dead_hosts.lock().unwrap().iter().any(|h| Some(h.as_str()) == uri.host());
        let step = if dead { ConnectStep::Fail(io::ErrorKind::ConnectionRefused) } else { self.script.lock().unwrap().pop_front().unwrap_or(ConnectStep::Ok { delay_us: 0 }) };
        let this = self.clone();
        let now = this.net.now();
        let host = uri.host().unwrap_or("").to_string();
        this.net.sim.ev(|| format!("t={now:?} connector: attempt {} to {uri} -> {step:?}", this.attempts.lock().unwrap().len() + 1));
        this.net.sim.mark(0x40);
        Box::pin(async move {
            match step.clone() {
                ConnectStep::Fail(kind) => {
                    // a refused or unreachable peer is noticed after a moment, rarely at once
                    let d = this.net.sim.pick(&[0u64, 0, 200, 5_000]);
                    if d > 0 {
                        tokio::time::sleep(Duration::from_micros(d)).await;
                    }
                    this.net.sim.fault("connect-fails");
                    this.attempts.lock().unwrap().push(Attempt { at: now, step, conn_id: None, host });
                    Err(io::Error::new(kind, "simulated connect failure"))
                }
                ConnectStep::Ok { delay_us } => {
                    if delay_us > 0 {
                        tokio::time::sleep(Duration::from_micros(delay_us)).await;
                    }
                    let (c, s) = this.net.pair();
                    let id = c.conn_id();
                    this.attempts.lock().unwrap().push(Attempt { at: now, step, conn_id: Some(id), host });
                    if this.accept_tx.send(s).is_err() {
                        // nobody listens any more: connection refused
                        return Err(io::Error::new(io::ErrorKind::ConnectionRefused, "simulated: listener closed"));
                    }
                    Ok(hyper_util::rt::TokioIo::new(c))
                }
            }
        })
    }
}

/// Build the tokio runtime of one simulated run: single thread, paused clock, seeded `select!`,
/// and a deterministic task-poll budget (a task that is re-polled forever without ever touching a
/// seam — a livelock in wall time — becomes a `task-poll-budget-exceeded` violation).
pub fn runtime(sim: &Sim, seed: u64) -> tokio::runtime::Runtime {
    let mut b = [0u8; 32];
    for (i, chunk) in b.chunks_mut(8).enumerate() {
        chunk.copy_from_slice(&(seed.wrapping_add(i as u64).wrapping_mul(0x9E37_79B9_7F4A_7C15)).to_le_bytes());
    }
    let polls = Arc::new(std::sync::atomic::AtomicU64::new(0));
    let sim2 = sim.clone();
    tokio::runtime::Builder::new_current_thread()
        .enable_time()
        .start_paused(true)
        .rng_seed(tokio::runtime::RngSeed::from_bytes(&b))
        .on_before_task_poll(move |_| {
            let n = polls.fetch_add(1, std::sync::atomic::Ordering::Relaxed);
            if n > TASK_POLL_BUDGET && !sim2.is_frozen() {
                std::panic::panic_any(simcore::SimAbort {
                    class: "task-poll-budget-exceeded".into(),
                    detail: format!("more than {TASK_POLL_BUDGET} task polls in one simulated run (busy loop that never waits)"),
                });
            }
        })
        .build()
        .expect("harness: tokio runtime")
}

pub const TASK_POLL_BUDGET: u64 = 3_000_000;

fn hex(b: &[u8]) -> String {
    let mut s = String::new();
    for x in b {
        s.push_str(&format!("{x:02x}"));
    }
    s
}

/// Declare right *after* the runtime: dropped before it (also when a panic unwinds), it freezes
/// the run's trace, so that the order in which tokio drops the remaining tasks — derived from
/// process-global task ids — never reaches the trace.
pub struct FreezeOnDrop(Sim);

impl Drop for FreezeOnDrop {
    fn drop(&mut self) {
        self.0.freeze();
    }
}

pub fn freeze_guard(sim: &Sim) -> FreezeOnDrop {
    FreezeOnDrop(sim.clone())
}
