//! Batch driver, shrinker, replay files, known findings, evidence, CLI.
//!
//! Exit codes: 0 = property held on everything explored (known findings are printed as
//! `KNOWN-FINDING:` lines), 1 = violation (a `VIOLATION property=<id> replay=<path>` line was
//! printed and the replay file reproduces it), 2 = harness error (never reported as a violation).

use crate::rng::{hash_str, mix};
use crate::sim::{Report, Sim, SimAbort, Violation};
use serde_json::{json, Value};
use std::cell::RefCell;
use std::collections::{BTreeMap, HashSet};
use std::panic::{catch_unwind, AssertUnwindSafe};
use std::sync::atomic::{AtomicBool, AtomicU64, Ordering};
use std::sync::{Arc, Mutex};
use std::time::Instant;

pub const DEFAULT_SEED: u64 = 20_261_003;

pub struct Scenario {
    pub name: &'static str,
    pub engine: &'static str,
    /// One simulated run.  `idx` is the run index inside the batch (used by scenarios that
    /// enumerate a finite grid completely before sampling); every other decision comes from `Sim`.
    pub run: fn(&Sim, u64),
    pub quick: u64,
    pub thorough: u64,
    /// Number of leading run indices that enumerate a finite sub-space completely (0 = none).
    pub grid: u64,
    pub what: &'static str,
}

pub struct Property {
    pub id: &'static str,
    pub title: &'static str,
    pub scenarios: Vec<Scenario>,
    pub rule: &'static str,
    pub real_vs_stub: Vec<(&'static str, &'static str)>,
    pub assumptions: Vec<&'static str>,
    /// Probes that must be non-zero in a thorough batch (reported as warnings; `selftest` fails on them).
    pub required_probes: Vec<&'static str>,
}

thread_local! {
    static LAST_PANIC: RefCell<Option<(String, String)>> = const { RefCell::new(None) };
    /// every panic raised on this thread during the current run — including the ones a runtime
    /// catches inside a spawned task (tokio turns those into a dropped task, which would otherwise
    /// surface only as a mysterious broken connection): (location, message, SimAbort class/detail)
    static PANIC_LOG: RefCell<Vec<(String, String, Option<(String, String)>)>> = const { RefCell::new(Vec::new()) };
}

fn install_panic_hook() {
    let verbose = std::env::var("VERIF_VERBOSE").is_ok();
    std::panic::set_hook(Box::new(move |info| {
        let loc = info
            .location()
            .map(|l| format!("{}:{}", l.file(), l.line()))
            .unwrap_or_else(|| "<unknown>".into());
        let msg = if let Some(s) = info.payload().downcast_ref::<&str>() {
            s.to_string()
        } else if let Some(s) = info.payload().downcast_ref::<String>() {
            s.clone()
        } else if let Some(a) = info.payload().downcast_ref::<SimAbort>() {
            format!("SimAbort {}: {}", a.class, a.detail)
        } else {
            "<non-string panic payload>".into()
        };
        if verbose {
            eprintln!("[panic] at {loc}: {msg}");
        }
        let abort = info.payload().downcast_ref::<SimAbort>().map(|a| (a.class.clone(), a.detail.clone()));
        PANIC_LOG.with(|p| {
            let mut p = p.borrow_mut();
            if p.len() < 8 {
                p.push((loc.clone(), msg.clone(), abort));
            }
        });
        LAST_PANIC.with(|p| *p.borrow_mut() = Some((loc, msg)));
    }));
}

fn is_harness_location(loc: &str) -> bool {
    loc.starts_with("tsim/")
        || loc.starts_with("simcore/")
        || loc.starts_with("tsim-tls/")
        || loc.starts_with("simnet/")
        || loc.starts_with("src/")
        || loc.contains("/verif/")
}

pub enum RunEnd {
    Ok(Report),
    HarnessPanic { loc: String, msg: String, report: Report },
}

/// Strip the machine-specific prefix from a panic location so classes are stable.
fn norm_loc(loc: &str) -> String {
    if let Some(i) = loc.find("/registry/src/") {
        let rest = &loc[i + "/registry/src/".len()..];
        if let Some(j) = rest.find('/') {
            return rest[j + 1..].to_string();
        }
    }
    loc.trim_start_matches("/repo/").to_string()
}

thread_local! {
    static CUR_PROP: RefCell<String> = const { RefCell::new(String::new()) };
}

/// Violation classes may be namespaced `Cxx/...`; a scenario shared by several properties records
/// all of them and each property's check keeps its own (un-namespaced classes belong to whichever
/// property is being run).
fn keep_for_current_property(class: &str) -> bool {
    match class.split_once('/') {
        Some((p, _)) if p.len() == 3 && p.starts_with('C') && p[1..].chars().all(|c| c.is_ascii_digit()) => {
            CUR_PROP.with(|c| *c.borrow() == p)
        }
        _ => true,
    }
}

pub fn set_current_property(id: &str) {
    CUR_PROP.with(|c| *c.borrow_mut() = id.to_string());
}

fn filtered(mut r: Report) -> Report {
    r.violations.retain(|v| keep_for_current_property(&v.class));
    r
}

pub fn run_one(scn: &Scenario, idx: u64, sim: Sim) -> RunEnd {
    match run_one_unfiltered(scn, idx, sim) {
        RunEnd::Ok(r) => RunEnd::Ok(filtered(r)),
        o => o,
    }
}

thread_local! {
    /// the run this thread is executing: (scenario, run index, its simulator)
    static CURRENT_RUN: RefCell<Option<(String, u64, Sim)>> = const { RefCell::new(None) };
}

/// For conditions that would otherwise *abort* the process before the run can end (an absurd
/// allocation request aborts, it does not unwind): write a replay file from the decisions made so
/// far, print the VIOLATION line and exit 1. Replaying that file meets the same condition again.
pub fn emergency_violation(class: &str, detail: &str) -> ! {
    let cur = CURRENT_RUN.with(|c| c.try_borrow().ok().and_then(|c| c.clone()));
    let prop = CUR_PROP.with(|c| c.try_borrow().map(|c| c.clone()).unwrap_or_default());
    let (scn, idx, tape) = match cur {
        Some((scn, idx, sim)) => (scn, idx, sim.tape_so_far().unwrap_or_default()),
        None => (String::new(), 0, vec![]),
    };
    let dir = format!("{}/replays", std::env::var("VERIF_OUT_DIR").unwrap_or_else(|_| verif_root()));
    let _ = std::fs::create_dir_all(&dir);
    let path = format!("{dir}/{prop}-emergency-{scn}-{idx}.json");
    let doc = json!({
        "property": prop, "scenario": scn, "run_index": idx, "class": class, "detail": detail, "tape": tape,
        "emergency": "written while the run was still going: the condition would have aborted the process; not minimised",
        "trace_hash": "n/a", "repo_rev": std::env::var("VERIF_REPO_REV").unwrap_or_default(),
    });
    let _ = std::fs::write(&path, serde_json::to_string_pretty(&doc).unwrap_or_default());
    println!("  violation class={class} scenario={scn} first_idx={idx} : {detail}");
    println!("VIOLATION property={prop} replay={path}");
    use std::io::Write;
    let _ = std::io::stdout().flush();
    std::process::exit(1);
}

static RUN_PRELUDE: std::sync::OnceLock<fn()> = std::sync::OnceLock::new();

/// A function called on the worker thread before every run: per-thread configuration a harness
/// keeps (thread-locals) must be reset there, or a run would depend on which run the thread
/// happened to execute before it.
pub fn set_run_prelude(f: fn()) {
    let _ = RUN_PRELUDE.set(f);
}

fn run_one_unfiltered(scn: &Scenario, idx: u64, sim: Sim) -> RunEnd {
    LAST_PANIC.with(|p| *p.borrow_mut() = None);
    PANIC_LOG.with(|p| p.borrow_mut().clear());
    if let Some(f) = RUN_PRELUDE.get() {
        f();
    }
    CURRENT_RUN.with(|c| *c.borrow_mut() = Some((scn.name.to_string(), idx, sim.clone())));
    let s2 = sim.clone();
    let r = catch_unwind(AssertUnwindSafe(|| (scn.run)(&s2, idx)));
    match r {
        Ok(()) => {
            // panics that were caught on the way (inside spawned tasks)
            let caught: Vec<(String, String, Option<(String, String)>)> = PANIC_LOG.with(|p| std::mem::take(&mut *p.borrow_mut()));
            for (loc, msg, abort) in caught {
                if let Some((class, detail)) = abort {
                    sim.violation(&class, format!("{detail} (raised inside a spawned task)"));
                } else if is_harness_location(&loc) {
                    return RunEnd::HarnessPanic { loc, msg, report: sim.finish() };
                } else {
                    let nl = norm_loc(&loc);
                    sim.violation(&format!("panic@{nl}"), format!("a spawned task panicked at {nl}: {msg}"));
                }
            }
            RunEnd::Ok(sim.finish())
        }
        Err(payload) => {
            if let Some(a) = payload.downcast_ref::<SimAbort>() {
                sim.violation(&a.class, a.detail.clone());
                return RunEnd::Ok(sim.finish());
            }
            let (loc, msg) = LAST_PANIC
                .with(|p| p.borrow_mut().take())
                .unwrap_or(("<unknown>".into(), "<unknown>".into()));
            if is_harness_location(&loc) {
                RunEnd::HarnessPanic {
                    loc,
                    msg,
                    report: sim.finish(),
                }
            } else {
                let nl = norm_loc(&loc);
                sim.violation(&format!("panic@{nl}"), format!("panicked at {nl}: {msg}"));
                RunEnd::Ok(sim.finish())
            }
        }
    }
}

fn seed_for(batch_seed: u64, prop: &str, scn: &str, idx: u64) -> u64 {
    mix(&[batch_seed, hash_str(prop), hash_str(scn), idx])
}

#[derive(Default)]
struct Agg {
    runs: u64,
    nontrivial: u64,
    hashes: HashSet<u64>,
    probes: BTreeMap<&'static str, u64>,
    faults: BTreeMap<&'static str, u64>,
    sim_time_ns: u128,
    draws: u128,
    samples: Vec<Value>,
    // class -> (idx, seed, detail, tape)
    first: BTreeMap<String, (u64, u64, String, Vec<u64>)>,
    class_counts: BTreeMap<String, u64>,
    violating_runs: u64,
    harness: Option<String>,
}

impl Agg {
    fn merge(&mut self, o: Agg) {
        self.runs += o.runs;
        self.nontrivial += o.nontrivial;
        self.hashes.extend(o.hashes);
        for (k, v) in o.probes {
            *self.probes.entry(k).or_insert(0) += v;
        }
        for (k, v) in o.faults {
            *self.faults.entry(k).or_insert(0) += v;
        }
        self.sim_time_ns += o.sim_time_ns;
        self.draws += o.draws;
        self.samples.extend(o.samples);
        for (k, v) in o.first {
            match self.first.get(&k) {
                Some(cur) if cur.0 <= v.0 => {}
                _ => {
                    self.first.insert(k, v);
                }
            }
        }
        for (k, v) in o.class_counts {
            *self.class_counts.entry(k).or_insert(0) += v;
        }
        self.violating_runs += o.violating_runs;
        if self.harness.is_none() {
            self.harness = o.harness;
        }
    }
}

/// Per-run wall-clock guard: (start second, scenario, idx, seed) of the run each worker is in.
static RUN_GUARD: Mutex<Vec<(u64, String, u64, u64)>> = Mutex::new(Vec::new());

fn guard_enter(scn: &str, idx: u64, seed: u64) -> usize {
    let now = std::time::SystemTime::now().duration_since(std::time::UNIX_EPOCH).map(|d| d.as_secs()).unwrap_or(0);
    let mut g = RUN_GUARD.lock().unwrap_or_else(|p| p.into_inner());
    if let Some(i) = g.iter().position(|e| e.0 == 0) {
        g[i] = (now, scn.to_string(), idx, seed);
        i
    } else {
        g.push((now, scn.to_string(), idx, seed));
        g.len() - 1
    }
}

fn guard_leave(slot: usize) {
    let mut g = RUN_GUARD.lock().unwrap_or_else(|p| p.into_inner());
    if let Some(e) = g.get_mut(slot) {
        e.0 = 0;
    }
}

fn run_batch(prop: &Property, scn: &Scenario, n: u64, batch_seed: u64, threads: usize) -> Agg {
    let next = AtomicU64::new(0);
    let stop = AtomicBool::new(false);
    let total = Mutex::new(Agg::default());
    std::thread::scope(|s| {
        for _ in 0..threads {
            s.spawn(|| {
                set_current_property(prop.id);
                let mut a = Agg::default();
                loop {
                    if stop.load(Ordering::Relaxed) {
                        break;
                    }
                    let idx = next.fetch_add(1, Ordering::Relaxed);
                    if idx >= n {
                        break;
                    }
                    let seed = seed_for(batch_seed, prop.id, scn.name, idx);
                    let sim = Sim::generate(seed, false);
                    let slot = guard_enter(scn.name, idx, seed);
                    let res = run_one(scn, idx, sim);
                    guard_leave(slot);
                    let rep = match res {
                        RunEnd::Ok(r) => r,
                        RunEnd::HarnessPanic { loc, msg, .. } => {
                            a.harness = Some(format!(
                                "harness panic in scenario {} idx {} seed {}: {} at {}",
                                scn.name, idx, seed, msg, loc
                            ));
                            stop.store(true, Ordering::Relaxed);
                            break;
                        }
                    };
                    a.runs += 1;
                    a.sim_time_ns += rep.sim_time_ns as u128;
                    a.draws += rep.draws as u128;
                    if rep.nontrivial {
                        a.nontrivial += 1;
                        a.hashes.insert(rep.sched_hash);
                    }
                    for (k, v) in &rep.probes {
                        *a.probes.entry(k).or_insert(0) += v;
                    }
                    for (k, v) in &rep.faults {
                        *a.faults.entry(k).or_insert(0) += v;
                    }
                    if idx < 3 {
                        if let Some(smp) = &rep.sample {
                            a.samples.push(json!({"scenario": scn.name, "run_index": idx, "seed": seed, "case": smp}));
                        }
                    }
                    if !rep.violations.is_empty() {
                        a.violating_runs += 1;
                        let mut seen: Vec<&str> = Vec::new();
                        for v in &rep.violations {
                            if seen.contains(&v.class.as_str()) {
                                continue;
                            }
                            seen.push(&v.class);
                            *a.class_counts.entry(v.class.clone()).or_insert(0) += 1;
                            match a.first.get(&v.class) {
                                Some(cur) if cur.0 <= idx => {}
                                _ => {
                                    a.first.insert(
                                        v.class.clone(),
                                        (idx, seed, v.detail.clone(), rep.tape.clone()),
                                    );
                                }
                            }
                        }
                    }
                }
                total.lock().unwrap().merge(a);
            });
        }
    });
    total.into_inner().unwrap()
}

fn has_class(rep: &Report, class: &str) -> Option<Violation> {
    rep.violations.iter().find(|v| v.class == class).cloned()
}

/// Tape minimisation (Hypothesis style): shorten, delete spans, zero, halve, decrement — keeping a
/// candidate only when the same violation class persists.  Bounded by runs and wall time.
pub fn shrink(scn: &Scenario, idx: u64, tape: Vec<u64>, class: &str) -> (Vec<u64>, u64) {
    let start = Instant::now();
    let max_runs = 20000u64;
    let mut runs = 0u64;
    let mut best = tape;
    let mut attempt = |cand: &Vec<u64>, runs: &mut u64| -> Option<Vec<u64>> {
        if *runs >= max_runs || start.elapsed().as_secs() > 30 {
            return None;
        }
        *runs += 1;
        match run_one(scn, idx, Sim::replay(cand.clone(), false)) {
            RunEnd::Ok(rep) => {
                if has_class(&rep, class).is_some() {
                    // canonical: what was actually consumed, trailing zeros trimmed
                    let mut t = rep.tape;
                    while t.last() == Some(&0) {
                        t.pop();
                    }
                    Some(t)
                } else {
                    None
                }
            }
            RunEnd::HarnessPanic { .. } => None,
        }
    };
    // canonicalise first
    if let Some(t) = attempt(&best.clone(), &mut runs) {
        best = t;
    }
    let mut improved = true;
    while improved && runs < max_runs && start.elapsed().as_secs() <= 30 {
        improved = false;
        // 1. truncate tail (binary)
        let mut lo = 0usize;
        let mut hi = best.len();
        while lo < hi {
            let mid = (lo + hi) / 2;
            let cand: Vec<u64> = best[..mid].to_vec();
            if let Some(t) = attempt(&cand, &mut runs) {
                if t.len() < best.len() || t < best {
                    best = t;
                    improved = true;
                }
                hi = mid.min(best.len());
            } else {
                lo = mid + 1;
            }
        }
        // 2. delete spans, large to small (delta-debugging style)
        let mut span = (best.len() / 2).max(1);
        loop {
            let mut i = 0usize;
            while i + span <= best.len() {
                let mut cand = best.clone();
                cand.drain(i..i + span);
                if let Some(t) = attempt(&cand, &mut runs) {
                    if t.len() < best.len() {
                        best = t;
                        improved = true;
                        continue;
                    }
                }
                i += if span > 4 { span } else { 1 };
            }
            if span == 1 {
                break;
            }
            span /= 2;
        }
        // 3. simplify values
        let mut i = 0usize;
        while i < best.len() {
            if best[i] != 0 {
                let orig = best[i];
                for nv in [0u64, orig / 2, orig - 1] {
                    if nv >= best.get(i).copied().unwrap_or(0) {
                        continue;
                    }
                    let mut cand = best.clone();
                    cand[i] = nv;
                    if let Some(t) = attempt(&cand, &mut runs) {
                        if t.len() < best.len() || (t.len() == best.len() && t < best) {
                            best = t;
                            improved = true;
                            break;
                        }
                    }
                }
            }
            i += 1;
        }
    }
    (best, runs)
}

fn verif_root() -> String {
    std::env::var("VERIF_ROOT").unwrap_or_else(|_| "/verif".into())
}

pub struct Known {
    pub class: String,
    pub what: String,
}

fn load_known(prop: &str) -> Result<Vec<Known>, String> {
    let path = format!("{}/known_findings.json", verif_root());
    let txt = match std::fs::read_to_string(&path) {
        Ok(t) => t,
        Err(_) => return Ok(vec![]),
    };
    let v: Value = serde_json::from_str(&txt).map_err(|e| format!("{path}: {e}"))?;
    let mut out = vec![];
    if let Some(arr) = v.get("findings").and_then(|f| f.as_array()) {
        for f in arr {
            if f.get("property").and_then(|p| p.as_str()) == Some(prop)
                && f.get("status").and_then(|p| p.as_str()) == Some("open")
            {
                out.push(Known {
                    class: f.get("class").and_then(|c| c.as_str()).unwrap_or("").to_string(),
                    what: f.get("what").and_then(|c| c.as_str()).unwrap_or("").to_string(),
                });
            }
        }
    }
    Ok(out)
}

fn trace_hash(rep: &Report) -> u64 {
    let mut h = 0xcbf2_9ce4_8422_2325u64;
    for e in &rep.events {
        h ^= hash_str(e);
        h = h.wrapping_mul(0x0000_0100_0000_01B3);
    }
    for t in &rep.tape {
        h ^= *t;
        h = h.wrapping_mul(0x0000_0100_0000_01B3);
    }
    h
}

fn write_replay(
    prop: &Property,
    scn: &Scenario,
    idx: u64,
    seed: u64,
    batch_seed: u64,
    tier: &str,
    class: &str,
    tape: &[u64],
    original_len: usize,
    shrink_runs: u64,
) -> Result<(String, String), String> {
    // self-verification: two traced replays must agree and reproduce the class
    let r1 = match run_one(scn, idx, Sim::replay(tape.to_vec(), true)) {
        RunEnd::Ok(r) => r,
        RunEnd::HarnessPanic { loc, msg, .. } => return Err(format!("harness panic on replay: {msg} at {loc}")),
    };
    let r2 = match run_one(scn, idx, Sim::replay(tape.to_vec(), true)) {
        RunEnd::Ok(r) => r,
        RunEnd::HarnessPanic { loc, msg, .. } => return Err(format!("harness panic on replay: {msg} at {loc}")),
    };
    let v1 = has_class(&r1, class).ok_or_else(|| format!("replay did not reproduce class {class}"))?;
    if has_class(&r2, class).is_none() || trace_hash(&r1) != trace_hash(&r2) {
        return Err(format!(
            "replay of class {class} is not deterministic (trace hashes {:x} vs {:x})",
            trace_hash(&r1),
            trace_hash(&r2)
        ));
    }
    let h = trace_hash(&r1);
    // VERIF_OUT_DIR (used by seedreport.py for runs against a patched /repo) redirects evidence and replays
    let dir = format!("{}/replays", std::env::var("VERIF_OUT_DIR").unwrap_or_else(|_| verif_root()));
    std::fs::create_dir_all(&dir).map_err(|e| e.to_string())?;
    let path = format!("{dir}/{}-{}-{:08x}.json", prop.id, seed, (h as u32));
    let doc = json!({
        "property": prop.id,
        "scenario": scn.name,
        "engine": scn.engine,
        "tier": tier,
        "batch_seed": batch_seed,
        "run_index": idx,
        "run_seed": seed,
        "class": class,
        "detail": v1.detail,
        "tape": tape,
        "tape_len_before_minimisation": original_len,
        "minimisation_reruns": shrink_runs,
        "trace_hash": format!("{h:016x}"),
        "repo_rev": std::env::var("VERIF_REPO_REV").unwrap_or_default(),
        "trace": r1.events,
    });
    std::fs::write(&path, serde_json::to_string_pretty(&doc).unwrap()).map_err(|e| e.to_string())?;
    Ok((path, v1.detail))
}

fn harness_exit(msg: &str) -> ! {
    eprintln!("HARNESS-ERROR: {msg}");
    println!("HARNESS-ERROR: {msg}");
    std::process::exit(2);
}

fn threads() -> usize {
    std::env::var("VERIF_THREADS")
        .ok()
        .and_then(|s| s.parse().ok())
        .unwrap_or_else(|| std::thread::available_parallelism().map(|n| n.get()).unwrap_or(8))
        .max(1)
}

fn batch_seed() -> u64 {
    std::env::var("VERIF_SEED")
        .ok()
        .and_then(|s| s.trim().parse::<u64>().ok())
        .unwrap_or(DEFAULT_SEED)
}

pub fn cmd_run(prop: &Property, tier: &str, selftest: bool) -> i32 {
    set_current_property(prop.id);
    let t0 = Instant::now();
    let bseed = batch_seed();
    let nthreads = threads();
    let scale: f64 = std::env::var("VERIF_SCALE").ok().and_then(|s| s.parse().ok()).unwrap_or(1.0);
    println!("property={} tier={} VERIF_SEED={} threads={}", prop.id, tier, bseed, nthreads);
    let known = match load_known(prop.id) {
        Ok(k) => k,
        Err(e) => harness_exit(&e),
    };

    let mut evaluations = 0u64;
    let mut all_hashes: HashSet<u64> = HashSet::new();
    let mut scen_json = serde_json::Map::new();
    let mut probes: BTreeMap<&'static str, u64> = BTreeMap::new();
    let mut faults: BTreeMap<&'static str, u64> = BTreeMap::new();
    let mut samples: Vec<Value> = vec![];
    let mut sim_time_ns: u128 = 0;
    let mut unknown: Vec<(usize, String, (u64, u64, String, Vec<u64>), u64)> = vec![];
    let mut known_hit: BTreeMap<String, (u64, String)> = BTreeMap::new();
    let mut violating_runs = 0u64;
    let mut grid_total = 0u64;
    let mut grid_done = true;

    for (si, scn) in prop.scenarios.iter().enumerate() {
        let base = if tier == "thorough" { scn.thorough } else { scn.quick };
        let mut n = ((base as f64) * scale).ceil() as u64;
        if scn.grid > 0 {
            grid_total += scn.grid;
            if n < scn.grid {
                if tier == "thorough" || scale >= 1.0 {
                    n = n.max(scn.grid.min(base));
                }
                if n < scn.grid {
                    grid_done = false;
                }
            }
        }
        if n == 0 {
            continue;
        }
        let ts = Instant::now();
        let agg = run_batch(prop, scn, n, bseed, nthreads);
        let wall = ts.elapsed().as_secs_f64();
        if let Some(h) = agg.harness {
            harness_exit(&h);
        }
        evaluations += agg.runs;
        violating_runs += agg.violating_runs;
        sim_time_ns += agg.sim_time_ns;
        for (k, v) in &agg.probes {
            *probes.entry(k).or_insert(0) += v;
        }
        for (k, v) in &agg.faults {
            *faults.entry(k).or_insert(0) += v;
        }
        let mut smp = agg.samples.clone();
        smp.sort_by_key(|v| v.get("run_index").and_then(|x| x.as_u64()).unwrap_or(0));
        samples.extend(smp.into_iter().take(2));
        scen_json.insert(
            scn.name.to_string(),
            json!({
                "engine": scn.engine,
                "what": scn.what,
                "runs": agg.runs,
                "grid_cells_enumerated_first": scn.grid.min(n),
                "nontrivial_runs": agg.nontrivial,
                "distinct_schedules_among_nontrivial": agg.hashes.len(),
                "wall_s": (wall * 1000.0).round() / 1000.0,
                "runs_per_hour": if wall > 0.0 { (agg.runs as f64 / wall * 3600.0) as u64 } else { 0 },
                "simulated_time_s": agg.sim_time_ns as f64 / 1e9,
                "mean_decisions_per_run": if agg.runs > 0 { (agg.draws / agg.runs as u128) as u64 } else { 0 },
                "violating_runs": agg.violating_runs,
                "violation_classes": agg.class_counts,
            }),
        );
        println!(
            "  scenario {:<18} engine {} runs {:>8} nontrivial {:>8} distinct {:>8} wall {:>7.2}s violating_runs {}",
            scn.name, scn.engine, agg.runs, agg.nontrivial, agg.hashes.len(), wall, agg.violating_runs
        );
        all_hashes.extend(agg.hashes.iter().map(|h| h ^ hash_str(scn.name)));
        for (class, first) in agg.first {
            let cnt = *agg.class_counts.get(&class).unwrap_or(&0);
            if let Some(k) = known.iter().find(|k| k.class == class) {
                known_hit.entry(class.clone()).or_insert((0, k.what.clone())).0 += cnt;
            } else {
                unknown.push((si, class, first, cnt));
            }
        }
    }

    for (class, (cnt, what)) in &known_hit {
        println!("KNOWN-FINDING: property={} class={} runs={} {}", prop.id, class, cnt, what);
    }

    // minimise and write replay files for unknown classes (bounded number)
    let mut exit = 0;
    let mut replay_paths: Vec<Value> = vec![];
    unknown.sort_by(|a, b| (a.0, a.2 .0, &a.1).cmp(&(b.0, b.2 .0, &b.1)));
    for (n_done, (si, class, (idx, seed, detail, tape), cnt)) in unknown.iter().enumerate() {
        let scn = &prop.scenarios[*si];
        if n_done >= 6 {
            println!("  (further unknown class not minimised: {class} x{cnt} first idx {idx} seed {seed}: {detail})");
            continue;
        }
        let orig_len = tape.len();
        let (min_tape, sruns) = shrink(scn, *idx, tape.clone(), class);
        match write_replay(prop, scn, *idx, *seed, bseed, tier, class, &min_tape, orig_len, sruns) {
            Ok((path, d)) => {
                println!(
                    "  violation class={} scenario={} runs={} first_idx={} seed={} tape {}->{} : {}",
                    class, scn.name, cnt, idx, seed, orig_len, min_tape.len(), d
                );
                println!("VIOLATION property={} replay={}", prop.id, path);
                replay_paths.push(json!({"class": class, "replay": path, "runs": cnt}));
                exit = 1;
            }
            Err(e) => {
                // A violation that does not replay is a harness defect, not a finding.
                harness_exit(&format!("class {class} (scenario {} idx {idx} seed {seed}): {e}", scn.name));
            }
        }
    }

    let zero_probes: Vec<&str> = prop
        .required_probes
        .iter()
        .copied()
        .filter(|p| probes.get(p).copied().unwrap_or(0) == 0)
        .collect();
    for p in &zero_probes {
        println!("  WARNING probe never hit: {p}");
    }

    let wall = t0.elapsed().as_secs_f64();
    let rvs: serde_json::Map<String, Value> = prop
        .real_vs_stub
        .iter()
        .map(|(k, v)| (k.to_string(), Value::String(v.to_string())))
        .collect();
    let mut coverage = json!({
        "evaluations": evaluations,
        "distinct_nontrivial": all_hashes.len(),
        "rule": prop.rule,
        "samples": samples,
        "scenarios": Value::Object(scen_json),
        "faults_fired": faults,
        "probes": probes,
        "probes_required_but_zero": zero_probes,
        "runs_per_hour": if wall > 0.0 { (evaluations as f64 / wall * 3600.0) as u64 } else { 0 },
        "simulated_time_s": sim_time_ns as f64 / 1e9,
        "threads": nthreads,
        "real_vs_stub": Value::Object(rvs),
        "known_findings_hit": known_hit.iter().map(|(k,(c,w))| json!({"class":k,"runs":c,"what":w})).collect::<Vec<_>>(),
        "violations_reported": replay_paths,
        "violating_runs": violating_runs,
    });
    if grid_total > 0 {
        coverage["exhaustive_subspace"] = json!({"cells": grid_total, "enumerated_completely": grid_done});
    }
    if coverage["samples"].as_array().map(|a| a.is_empty()).unwrap_or(true) {
        coverage["samples"] = json!([{"note": "no sample recorded"}]);
    }
    let ev = json!({
        "property_id": prop.id,
        "tier": tier,
        "seed": bseed,
        "level": "exploration",
        "coverage": coverage,
        "assumptions": prop.assumptions,
        "wall_s": (wall * 1000.0).round() / 1000.0,
        "violations": if exit == 1 { unknown.len() } else { 0 },
    });
    let evdir = format!("{}/evidence", std::env::var("VERIF_OUT_DIR").unwrap_or_else(|_| verif_root()));
    let _ = std::fs::create_dir_all(&evdir);
    let evpath = format!("{evdir}/{}.json", prop.id);
    if let Err(e) = std::fs::write(&evpath, serde_json::to_string_pretty(&ev).unwrap()) {
        harness_exit(&format!("cannot write {evpath}: {e}"));
    }
    println!(
        "property={} tier={} runs={} distinct_nontrivial={} wall={:.1}s result={}",
        prop.id,
        tier,
        evaluations,
        all_hashes.len(),
        wall,
        if exit == 0 { "held" } else { "VIOLATED" }
    );
    if selftest && !zero_probes.is_empty() {
        println!("SELFTEST-FAIL: probes at zero: {zero_probes:?}");
        return 3;
    }
    exit
}

pub fn cmd_replay(prop: &Property, path: &str) -> i32 {
    set_current_property(prop.id);
    let txt = match std::fs::read_to_string(path) {
        Ok(t) => t,
        Err(e) => harness_exit(&format!("cannot read {path}: {e}")),
    };
    let v: Value = match serde_json::from_str(&txt) {
        Ok(v) => v,
        Err(e) => harness_exit(&format!("{path}: {e}")),
    };
    let scn_name = v["scenario"].as_str().unwrap_or("");
    let scn = match prop.scenarios.iter().find(|s| s.name == scn_name) {
        Some(s) => s,
        None => harness_exit(&format!("unknown scenario {scn_name} for {}", prop.id)),
    };
    let idx = v["run_index"].as_u64().unwrap_or(0);
    let class = v["class"].as_str().unwrap_or("").to_string();
    let tape: Vec<u64> = v["tape"]
        .as_array()
        .map(|a| a.iter().map(|x| x.as_u64().unwrap_or(0)).collect())
        .unwrap_or_default();
    println!("replaying property={} scenario={} run_index={} class={} tape_len={}", prop.id, scn_name, idx, class, tape.len());
    let rep = match run_one(scn, idx, Sim::replay(tape, true)) {
        RunEnd::Ok(r) => r,
        RunEnd::HarnessPanic { loc, msg, .. } => harness_exit(&format!("harness panic on replay: {msg} at {loc}")),
    };
    for e in &rep.events {
        println!("  | {e}");
    }
    let h = trace_hash(&rep);
    println!("trace_hash={h:016x} recorded={}", v["trace_hash"].as_str().unwrap_or("?"));
    if let Some(vv) = has_class(&rep, &class) {
        println!("reproduced: {} : {}", vv.class, vv.detail);
        println!("VIOLATION property={} replay={}", prop.id, path);
        1
    } else {
        println!("NOT reproduced (classes seen: {:?})", rep.violations.iter().map(|v| v.class.clone()).collect::<Vec<_>>());
        0
    }
}

/// Determinism protocol helper: one line per run with the hash of the full traced execution.
pub fn cmd_det(prop: &Property, n: u64) -> i32 {
    let bseed = batch_seed();
    let nthreads = threads();
    for scn in &prop.scenarios {
        let lines: Mutex<Vec<(u64, String)>> = Mutex::new(vec![]);
        let next = AtomicU64::new(0);
        let harness: Mutex<Option<String>> = Mutex::new(None);
        std::thread::scope(|s| {
            for _ in 0..nthreads {
                s.spawn(|| loop {
                    set_current_property(prop.id);
                    let idx = next.fetch_add(1, Ordering::Relaxed);
                    if idx >= n {
                        break;
                    }
                    let seed = seed_for(bseed, prop.id, scn.name, idx);
                    match run_one(scn, idx, Sim::generate(seed, true)) {
                        RunEnd::Ok(rep) => {
                            let classes: Vec<String> = rep.violations.iter().map(|v| v.class.clone()).collect();
                            lines.lock().unwrap().push((
                                idx,
                                format!(
                                    "{} {} {} {:016x} ev={} tape={} sched={:016x} v={:?}",
                                    prop.id,
                                    scn.name,
                                    idx,
                                    trace_hash(&rep),
                                    rep.events.len(),
                                    rep.tape.len(),
                                    rep.sched_hash,
                                    classes
                                ),
                            ));
                        }
                        RunEnd::HarnessPanic { loc, msg, .. } => {
                            *harness.lock().unwrap() = Some(format!("{msg} at {loc} (scenario {} idx {idx} seed {seed})", scn.name));
                            break;
                        }
                    }
                });
            }
        });
        if let Some(h) = harness.into_inner().unwrap() {
            harness_exit(&h);
        }
        let mut l = lines.into_inner().unwrap();
        l.sort();
        for (_, s) in l {
            println!("{s}");
        }
    }
    0
}

/// Print the traced execution of one generated run (debugging aid).
pub fn cmd_show(prop: &Property, scn_name: &str, idx: u64) -> i32 {
    set_current_property(prop.id);
    let bseed = batch_seed();
    let scn = match prop.scenarios.iter().find(|s| s.name == scn_name) {
        Some(s) => s,
        None => harness_exit(&format!("unknown scenario {scn_name}")),
    };
    // debugging aid for the determinism protocol: run earlier indices on this thread first
    if let Some(w) = std::env::var("VERIF_WARMUP").ok().and_then(|s| s.parse::<u64>().ok()) {
        for j in idx.saturating_sub(w)..idx {
            let _ = run_one(scn, j, Sim::generate(seed_for(bseed, prop.id, scn.name, j), false));
        }
    }
    let seed = seed_for(bseed, prop.id, scn.name, idx);
    match run_one(scn, idx, Sim::generate(seed, true)) {
        RunEnd::Ok(rep) => {
            for e in &rep.events {
                println!("  | {e}");
            }
            println!("sample: {:?}", rep.sample);
            println!("probes: {:?}", rep.probes);
            println!("faults: {:?}", rep.faults);
            for v in &rep.violations {
                println!("violation {}: {}", v.class, v.detail);
            }
            0
        }
        RunEnd::HarnessPanic { loc, msg, .. } => harness_exit(&format!("{msg} at {loc}")),
    }
}

fn watchdog() {
    // A pure CPU loop that never touches a seam cannot be interrupted in-process; turn it into a
    // harness error instead of a silent hang.  Wall clock is used here only, never inside a run.
    let limit: u64 = std::env::var("VERIF_WATCHDOG_S").ok().and_then(|s| s.parse().ok()).unwrap_or(7200);
    let run_limit: u64 = std::env::var("VERIF_RUN_WALL_S").ok().and_then(|s| s.parse().ok()).unwrap_or(300);
    std::thread::spawn(move || {
        let t0 = Instant::now();
        loop {
            std::thread::sleep(std::time::Duration::from_secs(2));
            if t0.elapsed().as_secs() > limit {
                eprintln!("HARNESS-ERROR: watchdog: process exceeded {limit}s wall clock");
                println!("HARNESS-ERROR: watchdog: process exceeded {limit}s wall clock");
                std::process::exit(2);
            }
            let now = std::time::SystemTime::now().duration_since(std::time::UNIX_EPOCH).map(|d| d.as_secs()).unwrap_or(0);
            let g = RUN_GUARD.lock().unwrap_or_else(|p| p.into_inner());
            for e in g.iter() {
                if e.0 != 0 && now.saturating_sub(e.0) > run_limit {
                    // a single simulated run that does not come back: a loop that never touches a
                    // seam (neither the step budget nor the task-poll budget can interrupt it)
                    let msg = format!("watchdog: one simulated run exceeded {run_limit}s of wall clock: scenario {} run_index {} seed {} (re-run with `show`)", e.1, e.2, e.3);
                    eprintln!("HARNESS-ERROR: {msg}");
                    println!("HARNESS-ERROR: {msg}");
                    std::process::exit(2);
                }
            }
        }
    });
}

pub fn main_with(props: Vec<Property>) -> ! {
    install_panic_hook();
    watchdog();
    let args: Vec<String> = std::env::args().collect();
    let usage = || -> ! {
        eprintln!("usage: {} list | run <ID> <quick|thorough> | selftest <ID> | replay <ID> <file> | det <ID> <n> | show <ID> <scenario> <idx>", args[0]);
        std::process::exit(2);
    };
    if args.len() < 2 {
        usage();
    }
    let find = |id: &str| -> Arc<&Property> {
        match props.iter().find(|p| p.id == id) {
            Some(p) => Arc::new(p),
            None => {
                eprintln!("HARNESS-ERROR: unknown property {id}");
                std::process::exit(2);
            }
        }
    };
    let code = match args[1].as_str() {
        "list" => {
            for p in &props {
                println!("{} {}", p.id, p.title);
                for s in &p.scenarios {
                    println!("    {:<20} engine {} quick {} thorough {} grid {} — {}", s.name, s.engine, s.quick, s.thorough, s.grid, s.what);
                }
            }
            0
        }
        "run" if args.len() >= 3 => {
            let tier = args
                .get(3)
                .cloned()
                .or_else(|| std::env::var("VERIF_TIER").ok())
                .unwrap_or_else(|| "quick".into());
            if tier != "quick" && tier != "thorough" {
                usage();
            }
            cmd_run(&find(&args[2]), &tier, false)
        }
        "selftest" if args.len() >= 3 => cmd_run(&find(&args[2]), "thorough", true),
        "replay" if args.len() >= 4 => cmd_replay(&find(&args[2]), &args[3]),
        "det" if args.len() >= 4 => cmd_det(&find(&args[2]), args[3].parse().unwrap_or(100)),
        "show" if args.len() >= 5 => cmd_show(&find(&args[2]), &args[3], args[4].parse().unwrap_or(0)),
        _ => usage(),
    };
    std::process::exit(code);
}
