//! Small, dependency-free PRNG: splitmix64 for seeding/mixing, xoshiro256** for the stream.

#[derive(Clone, Debug)]
pub struct Rng {
    s: [u64; 4],
}

pub fn splitmix64(x: &mut u64) -> u64 {
    *x = x.wrapping_add(0x9E37_79B9_7F4A_7C15);
    let mut z = *x;
    z = (z ^ (z >> 30)).wrapping_mul(0xBF58_476D_1CE4_E5B9);
    z = (z ^ (z >> 27)).wrapping_mul(0x94D0_49BB_1331_11EB);
    z ^ (z >> 31)
}

/// Mix several integers into one seed (order-sensitive).
pub fn mix(parts: &[u64]) -> u64 {
    let mut acc = 0x243F_6A88_85A3_08D3u64;
    for p in parts {
        let mut x = acc ^ p.wrapping_mul(0x9E37_79B9_7F4A_7C15);
        acc = splitmix64(&mut x);
    }
    acc
}

/// FNV-1a style string hash used to turn property / scenario names into seed material.
pub fn hash_str(s: &str) -> u64 {
    let mut h = 0xcbf2_9ce4_8422_2325u64;
    for b in s.as_bytes() {
        h ^= *b as u64;
        h = h.wrapping_mul(0x0000_0100_0000_01B3);
    }
    h
}

impl Rng {
    pub fn new(seed: u64) -> Self {
        let mut x = seed;
        let s = [
            splitmix64(&mut x),
            splitmix64(&mut x),
            splitmix64(&mut x),
            splitmix64(&mut x),
        ];
        Rng { s }
    }

    pub fn next_u64(&mut self) -> u64 {
        let result = self.s[1].wrapping_mul(5).rotate_left(7).wrapping_mul(9);
        let t = self.s[1] << 17;
        self.s[2] ^= self.s[0];
        self.s[3] ^= self.s[1];
        self.s[1] ^= self.s[2];
        self.s[0] ^= self.s[3];
        self.s[2] ^= t;
        self.s[3] = self.s[3].rotate_left(45);
        result
    }

    /// Uniform in 0..n (n >= 1); multiply-shift, bias negligible for the n used here.
    pub fn below(&mut self, n: u64) -> u64 {
        debug_assert!(n >= 1);
        ((self.next_u64() as u128 * n as u128) >> 64) as u64
    }
}
