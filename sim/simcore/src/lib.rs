//! simcore — the deterministic-simulation kernel shared by every check.
//!
//! * `Rng`      — xoshiro256** seeded through splitmix64 (no external crate, no global state)
//! * `Sim`      — the per-run handle: choice tape (generate / replay), event trace, probes,
//!                fault counters, violations.  One `Sim` = one exactly repeatable execution.
//! * `exec`     — the simulator-owned single-threaded executor (wake-flag waker, hang detection,
//!                multi-task scheduling decided by the tape)
//! * `runner`   — batch driver: seeds, worker threads, panic capture, tape shrinking, replay
//!                files, known findings, evidence files, CLI.
//!
//! Nothing here reads a clock or an OS source of randomness on a path that influences a run; wall
//! time is read only by the batch driver for reporting.

pub mod exec;
pub mod rng;
pub mod runner;
pub mod sim;

pub use exec::{drive, Drive, Exec};
pub use rng::Rng;
pub use runner::{main_with, Property, Scenario};
pub use sim::{Sim, SimAbort, Violation};
