//! Simulator-owned executor.  No threads, no timers, no real sleeps.
//!
//! A seam that wants to say "not ready yet" wakes the task before returning `Pending`
//! (readiness will arrive later — the scheduler decides when).  Therefore a task that returns
//! `Pending` with its wake flag clear can never be polled again by any correct executor: that is a
//! lost wake-up (hang) in the code under test, and it is reported immediately and
//! deterministically instead of being waited for.

use crate::sim::Sim;
use std::future::Future;
use std::pin::Pin;
use std::sync::atomic::{AtomicBool, AtomicU64, Ordering};
use std::sync::Arc;
use std::task::{Context, Poll, Wake, Waker};

pub struct Flag {
    woken: AtomicBool,
    wakes: AtomicU64,
}

impl Wake for Flag {
    fn wake(self: Arc<Self>) {
        self.wake_by_ref()
    }
    fn wake_by_ref(self: &Arc<Self>) {
        self.woken.store(true, Ordering::SeqCst);
        self.wakes.fetch_add(1, Ordering::SeqCst);
    }
}

impl Flag {
    pub fn new() -> Arc<Flag> {
        Arc::new(Flag {
            woken: AtomicBool::new(false),
            wakes: AtomicU64::new(0),
        })
    }
    pub fn take(&self) -> bool {
        self.woken.swap(false, Ordering::SeqCst)
    }
    pub fn is_set(&self) -> bool {
        self.woken.load(Ordering::SeqCst)
    }
}

#[derive(Debug)]
pub enum Drive<T> {
    Done(T),
    /// Pending with no wake-up registered anywhere the simulator controls.
    Hang { polls: u64 },
    /// Pending because a seam deliberately stalled forever (the simulated peer went silent).
    Stalled { polls: u64 },
    /// Exceeded the poll budget (livelock: always woken, never finishing).
    Budget { polls: u64 },
}

/// Poll a single future to completion on the calling thread.
pub fn drive<F: Future + ?Sized>(sim: &Sim, mut fut: Pin<&mut F>, max_polls: u64) -> Drive<F::Output> {
    let flag = Flag::new();
    let waker = Waker::from(flag.clone());
    let mut cx = Context::from_waker(&waker);
    let mut polls = 0u64;
    loop {
        flag.take();
        polls += 1;
        if let Poll::Ready(v) = fut.as_mut().poll(&mut cx) {
            return Drive::Done(v);
        }
        if !flag.is_set() {
            if sim.stalled() {
                return Drive::Stalled { polls };
            }
            return Drive::Hang { polls };
        }
        if polls >= max_polls {
            return Drive::Budget { polls };
        }
    }
}

/// Poll once with a fresh flag waker; returns (result, woken).
pub fn poll_once<F: Future + ?Sized>(fut: Pin<&mut F>) -> (Poll<F::Output>, bool) {
    let flag = Flag::new();
    let waker = Waker::from(flag.clone());
    let mut cx = Context::from_waker(&waker);
    let r = fut.poll(&mut cx);
    (r, flag.is_set())
}

struct Task {
    fut: Option<Pin<Box<dyn Future<Output = ()>>>>,
    flag: Arc<Flag>,
    polls: u64,
}

/// Multi-task executor: the tape picks which woken task runs next.
pub struct Exec {
    tasks: Vec<Task>,
    pub steps: u64,
}

impl Default for Exec {
    fn default() -> Self {
        Self::new()
    }
}

impl Exec {
    pub fn new() -> Exec {
        Exec {
            tasks: Vec::new(),
            steps: 0,
        }
    }

    pub fn spawn<F: Future<Output = ()> + 'static>(&mut self, f: F) -> usize {
        let flag = Flag::new();
        flag.woken.store(true, Ordering::SeqCst); // new tasks are runnable
        self.tasks.push(Task {
            fut: Some(Box::pin(f)),
            flag,
            polls: 0,
        });
        self.tasks.len() - 1
    }

    pub fn is_done(&self, id: usize) -> bool {
        self.tasks[id].fut.is_none()
    }

    pub fn runnable(&self) -> Vec<usize> {
        self.tasks
            .iter()
            .enumerate()
            .filter(|(_, t)| t.fut.is_some() && t.flag.is_set())
            .map(|(i, _)| i)
            .collect()
    }

    /// Run one scheduling step: pick a runnable task via the tape and poll it once.
    /// Returns the task polled, or None when nothing is runnable (quiescent).
    pub fn step(&mut self, sim: &Sim) -> Option<usize> {
        let r = self.runnable();
        if r.is_empty() {
            return None;
        }
        let id = r[sim.draw(r.len() as u64) as usize];
        self.poll_task(id);
        Some(id)
    }

    pub fn poll_task(&mut self, id: usize) {
        self.steps += 1;
        let t = &mut self.tasks[id];
        t.flag.take();
        t.polls += 1;
        let waker = Waker::from(t.flag.clone());
        let mut cx = Context::from_waker(&waker);
        if let Some(f) = t.fut.as_mut() {
            if f.as_mut().poll(&mut cx).is_ready() {
                t.fut = None;
            }
        }
    }

    /// Run until quiescent or until `max_steps` steps were taken.  Returns true if quiescent.
    pub fn run_until_idle(&mut self, sim: &Sim, max_steps: u64) -> bool {
        for _ in 0..max_steps {
            if self.step(sim).is_none() {
                return true;
            }
        }
        self.runnable().is_empty()
    }
}
