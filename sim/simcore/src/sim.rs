//! `Sim` — per-run handle.  Every decision of a run is drawn through it, so a run is a pure
//! function of (code, tape).  In generate mode the tape is produced by a PRNG seeded from one
//! integer; in replay mode it is read back (value mod n, 0 when exhausted) — this is what the
//! shrinker edits and what a replay file stores.

use crate::rng::Rng;
use std::collections::BTreeMap;
use std::sync::{Arc, Mutex};

#[derive(Clone, Debug)]
pub struct Violation {
    /// Stable class, e.g. `error-not-terminal`.  Known findings and shrinking key on it.
    pub class: String,
    pub detail: String,
}

/// Panic payload used by seams to abort a run that exceeded a budget (busy loop, runaway).
#[derive(Debug)]
pub struct SimAbort {
    pub class: String,
    pub detail: String,
}

#[derive(Default, Debug, Clone)]
pub struct Report {
    pub violations: Vec<Violation>,
    pub probes: BTreeMap<&'static str, u64>,
    pub faults: BTreeMap<&'static str, u64>,
    pub nontrivial: bool,
    pub sched_hash: u64,
    pub sim_time_ns: u64,
    pub sample: Option<String>,
    pub tape: Vec<u64>,
    pub events: Vec<String>,
    pub draws: u64,
}

struct Inner {
    rng: Option<Rng>,
    replay: Option<Vec<u64>>,
    pos: usize,
    tape: Vec<u64>,
    trace_on: bool,
    events: Vec<String>,
    hash: u64,
    probes: BTreeMap<&'static str, u64>,
    faults: BTreeMap<&'static str, u64>,
    violations: Vec<Violation>,
    nontrivial: bool,
    stalled: bool,
    steps: u64,
    step_budget: u64,
    sim_time_ns: u64,
    sample: Option<String>,
    frozen: bool,
}

#[derive(Clone)]
pub struct Sim(Arc<Mutex<Inner>>);

const HASH_DRAW_LIMIT: u64 = 1 << 16;

impl Sim {
    fn mk(rng: Option<Rng>, replay: Option<Vec<u64>>, trace_on: bool) -> Sim {
        Sim(Arc::new(Mutex::new(Inner {
            rng,
            replay,
            pos: 0,
            tape: Vec::new(),
            trace_on,
            events: Vec::new(),
            hash: 0x1234_5678_9abc_def1,
            probes: BTreeMap::new(),
            faults: BTreeMap::new(),
            violations: Vec::new(),
            nontrivial: false,
            stalled: false,
            steps: 0,
            step_budget: 3_000_000,
            sim_time_ns: 0,
            sample: None,
            frozen: false,
        })))
    }

    pub fn generate(seed: u64, trace_on: bool) -> Sim {
        Sim::mk(Some(Rng::new(seed)), None, trace_on)
    }

    pub fn replay(tape: Vec<u64>, trace_on: bool) -> Sim {
        Sim::mk(None, Some(tape), trace_on)
    }

    fn lock(&self) -> std::sync::MutexGuard<'_, Inner> {
        match self.0.lock() {
            Ok(g) => g,
            Err(p) => p.into_inner(),
        }
    }

    /// The decisions made so far (for an emergency replay file written while the run is still going).
    /// Must not be called while the simulator's own lock is held by the calling thread.
    pub fn tape_so_far(&self) -> Option<Vec<u64>> {
        match self.0.try_lock() {
            Ok(g) => Some(g.tape.clone()),
            Err(_) => None,
        }
    }

    pub fn set_step_budget(&self, n: u64) {
        self.lock().step_budget = n;
    }

    /// The one primitive: a value in `0..n`.
    pub fn draw(&self, n: u64) -> u64 {
        if n <= 1 {
            return 0;
        }
        let mut g = self.lock();
        g.steps += 1;
        if g.steps > g.step_budget {
            let d = format!("more than {} simulator decisions in one run", g.step_budget);
            drop(g);
            std::panic::panic_any(SimAbort {
                class: "step-budget-exceeded".into(),
                detail: d,
            });
        }
        let v = if let Some(rng) = g.rng.as_mut() {
            rng.below(n)
        } else {
            let pos = g.pos;
            let t = g.replay.as_ref().unwrap();
            if pos < t.len() {
                t[pos] % n
            } else {
                0
            }
        };
        g.pos += 1;
        g.tape.push(v);
        if n <= HASH_DRAW_LIMIT {
            let mut x = g.hash ^ (v.wrapping_mul(0x9E37_79B9_7F4A_7C15)) ^ (n << 32);
            g.hash = crate::rng::splitmix64(&mut x);
        }
        v
    }

    /// Count one simulator step that is not a tape draw (used by seams to bound busy loops).
    pub fn step(&self) {
        let mut g = self.lock();
        g.steps += 1;
        if g.steps > g.step_budget {
            let d = format!("more than {} simulator steps in one run", g.step_budget);
            drop(g);
            std::panic::panic_any(SimAbort {
                class: "step-budget-exceeded".into(),
                detail: d,
            });
        }
    }

    pub fn chance(&self, num: u64, den: u64) -> bool {
        if num == 0 {
            return false;
        }
        if num >= den {
            return true;
        }
        self.draw(den) < num
    }

    /// Inclusive range.
    pub fn range(&self, lo: u64, hi: u64) -> u64 {
        debug_assert!(lo <= hi);
        lo + self.draw(hi - lo + 1)
    }

    pub fn pick<T: Clone>(&self, xs: &[T]) -> T {
        xs[self.draw(xs.len() as u64) as usize].clone()
    }

    pub fn weighted(&self, ws: &[u32]) -> usize {
        let total: u64 = ws.iter().map(|w| *w as u64).sum();
        let mut v = self.draw(total.max(1));
        for (i, w) in ws.iter().enumerate() {
            if v < *w as u64 {
                return i;
            }
            v -= *w as u64;
        }
        ws.len() - 1
    }

    /// A 32-bit seed for content generation: one tape entry, not folded into the schedule hash.
    pub fn content_seed(&self) -> u64 {
        self.draw(1 << 32)
    }

    /// `len` bytes of content from one tape entry (style 0 = zeros, 1 = compressible text, else
    /// random).  Seed 0 (the shrinker's target) gives all zero bytes.
    pub fn bytes(&self, len: usize) -> Vec<u8> {
        let seed = self.content_seed();
        if seed == 0 || len == 0 {
            return vec![0u8; len];
        }
        let mut r = Rng::new(seed);
        match seed % 4 {
            0 => vec![(seed >> 8) as u8; len],
            1 => {
                const WORDS: &[&[u8]] = &[b"grpc ", b"tonic ", b"hello ", b"world ", b"0123456789 "];
                let mut v = Vec::with_capacity(len + 12);
                while v.len() < len {
                    v.extend_from_slice(WORDS[r.below(WORDS.len() as u64) as usize]);
                }
                v.truncate(len);
                v
            }
            _ => {
                let mut v = Vec::with_capacity(len + 8);
                while v.len() < len {
                    v.extend_from_slice(&r.next_u64().to_le_bytes());
                }
                v.truncate(len);
                v
            }
        }
    }

    pub fn tracing(&self) -> bool {
        self.lock().trace_on
    }

    /// Record a human-readable event; the closure runs only when tracing is on (replays and the
    /// re-run of a failing seed), so logging never perturbs a run and costs nothing in batches.
    /// Stop recording events and schedule marks: used before tearing a runtime down, where the
    /// order in which tokio drops the remaining tasks is not part of the simulated execution.
    pub fn freeze(&self) {
        self.lock().frozen = true;
    }

    pub fn is_frozen(&self) -> bool {
        self.lock().frozen
    }

    pub fn ev<F: FnOnce() -> String>(&self, f: F) {
        let mut g = self.lock();
        if g.trace_on && !g.frozen {
            let s = f();
            g.events.push(s);
        }
    }

    /// Fold an observed event kind into the schedule hash (N engine: event-kind trace).
    pub fn mark(&self, v: u64) {
        let mut g = self.lock();
        if g.frozen {
            return;
        }
        let mut x = g.hash ^ v.wrapping_mul(0xD6E8_FEB8_6659_FD93);
        g.hash = crate::rng::splitmix64(&mut x);
    }

    pub fn probe(&self, name: &'static str) {
        *self.lock().probes.entry(name).or_insert(0) += 1;
    }

    pub fn fault(&self, name: &'static str) {
        let mut g = self.lock();
        *g.faults.entry(name).or_insert(0) += 1;
        g.nontrivial = true;
    }

    pub fn nontrivial(&self) {
        self.lock().nontrivial = true;
    }

    pub fn violation(&self, class: &str, detail: String) {
        let mut g = self.lock();
        if g.trace_on {
            g.events.push(format!("VIOLATION {class}: {detail}"));
        }
        if g.violations.len() < 16 {
            g.violations.push(Violation {
                class: class.to_string(),
                detail,
            });
        }
    }

    pub fn has_violation(&self) -> bool {
        !self.lock().violations.is_empty()
    }

    pub fn set_stalled(&self, v: bool) {
        self.lock().stalled = v;
    }

    pub fn stalled(&self) -> bool {
        self.lock().stalled
    }

    pub fn add_time_ns(&self, ns: u64) {
        self.lock().sim_time_ns += ns;
    }

    pub fn sample<F: FnOnce() -> String>(&self, f: F) {
        let mut g = self.lock();
        if g.sample.is_none() {
            g.sample = Some(f());
        }
    }

    pub fn finish(&self) -> Report {
        let mut g = self.lock();
        Report {
            violations: std::mem::take(&mut g.violations),
            probes: std::mem::take(&mut g.probes),
            faults: std::mem::take(&mut g.faults),
            nontrivial: g.nontrivial,
            sched_hash: g.hash,
            sim_time_ns: g.sim_time_ns,
            sample: g.sample.take(),
            tape: std::mem::take(&mut g.tape),
            events: std::mem::take(&mut g.events),
            draws: g.steps,
        }
    }
}
