//! tsim-tls — C15: TLS channels and servers authenticate the peer and insist on HTTP/2.
//! Engine N with real rustls/tokio-rustls on both ends of the simulated byte pipe.  Separate
//! package so that every other check builds tonic without `_tls-any` (the configuration the
//! baseline suite exercises).

use bytes::Bytes;
use simcore::{Property, Scenario, Sim};
use simnet::{NetCfg, SimConnInfo, SimConnector, SimNet, SimStream};
use std::sync::atomic::{AtomicU64, Ordering};
use std::sync::{Arc, Mutex};
use std::time::Duration;
use tokio_rustls::rustls;
use tokio_rustls::rustls::pki_types::pem::PemObject;
use tokio_rustls::rustls::pki_types::{CertificateDer, PrivateKeyDer};
use tokio_stream::StreamExt;
use tonic::transport::server::TlsConnectInfo;
use tonic::transport::{Certificate, ClientTlsConfig, Endpoint, Identity, Server, ServerTlsConfig};
use tonic_health::pb::health_client::HealthClient;
use tonic_health::pb::health_server::{Health, HealthServer};
use tonic_health::pb::{HealthCheckRequest, HealthCheckResponse};

macro_rules! pki {
    ($f:literal) => {
        include_str!(concat!(env!("CARGO_MANIFEST_DIR"), "/../../pki/", $f))
    };
}
const CA_A: &str = pki!("ca_a.pem");
const CA_B: &str = pki!("ca_b.pem");
const CA_C: &str = pki!("ca_c.pem");
const SERVER_PEM: &str = pki!("server.pem");
const SERVER_KEY: &str = pki!("server.key");
const CLIENT_OK_PEM: &str = pki!("client_ok.pem");
const CLIENT_OK_KEY: &str = pki!("client_ok.key");
const CLIENT_CHAIN_PEM: &str = pki!("client_chain.pem"); // leaf + intermediate (issued by ca_c)
const CLIENT_CHAIN_KEY: &str = pki!("client_chain.key");
const CLIENT_OTHER_PEM: &str = pki!("client_other.pem");
const CLIENT_OTHER_KEY: &str = pki!("client_other.key");

const CANARY: &str = "CANARY-TLS-7f3a9c51e2";

#[derive(Clone, Default)]
struct Seen {
    requests: Arc<AtomicU64>,
    peer_certs: Arc<Mutex<Vec<Option<Vec<Vec<u8>>>>>>,
}

#[derive(Clone)]
struct CountingHealth(Seen);

#[tonic::async_trait]
impl Health for CountingHealth {
    async fn check(&self, req: tonic::Request<HealthCheckRequest>) -> Result<tonic::Response<HealthCheckResponse>, tonic::Status> {
        self.0.requests.fetch_add(1, Ordering::SeqCst);
        let certs = req.extensions().get::<TlsConnectInfo<SimConnInfo>>().and_then(|i| i.peer_certs()).map(|c| c.iter().map(|d| d.as_ref().to_vec()).collect::<Vec<_>>());
        self.0.peer_certs.lock().unwrap().push(certs);
        Ok(tonic::Response::new(HealthCheckResponse { status: 1 }))
    }
    type WatchStream = tokio_stream::Empty<Result<HealthCheckResponse, tonic::Status>>;
    async fn watch(&self, _r: tonic::Request<HealthCheckRequest>) -> Result<tonic::Response<Self::WatchStream>, tonic::Status> {
        Err(tonic::Status::unimplemented("not used"))
    }
}

#[derive(Clone, Copy, Debug, PartialEq, Eq)]
enum Roots {
    Right,
    Other,
    None,
}
#[derive(Clone, Copy, Debug, PartialEq, Eq)]
enum Domain {
    ConfiguredMatching,
    ConfiguredNonMatching,
    FromUri,
}
#[derive(Clone, Copy, Debug, PartialEq, Eq)]
enum Alpn {
    H2,
    NoAlpn,
    Http11,
}
#[derive(Clone, Copy, Debug, PartialEq, Eq)]
enum ClientAuth {
    NoAuth,
    Required,
    Optional,
}
#[derive(Clone, Copy, Debug, PartialEq, Eq)]
enum Ident {
    NoIdent,
    Valid,
    OtherCa,
}

const GRID: u64 = 3 * 3 * 3 * 2 * 3 * 3;

#[derive(Clone, Copy, Debug)]
struct Cell {
    roots: Roots,
    domain: Domain,
    alpn: Alpn,
    assume_http2: bool,
    auth: ClientAuth,
    ident: Ident,
}

fn cell(i: u64) -> Cell {
    let mut i = i % GRID;
    let mut take = |n: u64| {
        let v = i % n;
        i /= n;
        v
    };
    Cell {
        roots: [Roots::Right, Roots::Other, Roots::None][take(3) as usize],
        domain: [Domain::ConfiguredMatching, Domain::ConfiguredNonMatching, Domain::FromUri][take(3) as usize],
        alpn: [Alpn::H2, Alpn::NoAlpn, Alpn::Http11][take(3) as usize],
        assume_http2: take(2) == 1,
        auth: [ClientAuth::NoAuth, ClientAuth::Required, ClientAuth::Optional][take(3) as usize],
        ident: [Ident::NoIdent, Ident::Valid, Ident::OtherCa][take(3) as usize],
    }
}

fn certs(pem: &str) -> Vec<CertificateDer<'static>> {
    CertificateDer::pem_slice_iter(pem.as_bytes()).map(|c| c.expect("harness: pem")).collect()
}

/// The harness's own TLS acceptor + raw h2 server (for the rows tonic's acceptor cannot express:
/// ALPN absent or http/1.1).  Counts requests; answers a well-formed unary gRPC response.
fn raw_tls_server(sim: &Sim, c: Cell, seen: Seen, mut rx: tokio::sync::mpsc::UnboundedReceiver<SimStream>) {
    let provider = Arc::new(rustls::crypto::ring::default_provider());
    let b = rustls::ServerConfig::builder_with_provider(provider.clone()).with_safe_default_protocol_versions().expect("harness: versions");
    let b = match c.auth {
        ClientAuth::NoAuth => b.with_no_client_auth(),
        mode => {
            let mut roots = rustls::RootCertStore::empty();
            roots.add_parsable_certificates(certs(CA_C));
            let vb = rustls::server::WebPkiClientVerifier::builder_with_provider(roots.into(), provider.clone());
            let vb = if mode == ClientAuth::Optional { vb.allow_unauthenticated() } else { vb };
            b.with_client_cert_verifier(vb.build().expect("harness: verifier"))
        }
    };
    let mut cfg = b.with_single_cert(certs(SERVER_PEM), PrivateKeyDer::from_pem_slice(SERVER_KEY.as_bytes()).expect("harness: key")).expect("harness: server cert");
    match c.alpn {
        Alpn::H2 => cfg.alpn_protocols.push(b"h2".to_vec()),
        Alpn::Http11 => cfg.alpn_protocols.push(b"http/1.1".to_vec()),
        Alpn::NoAlpn => {}
    }
    let acceptor = tokio_rustls::TlsAcceptor::from(Arc::new(cfg));
    let sim = sim.clone();
    tokio::spawn(async move {
        while let Some(io) = rx.recv().await {
            let acceptor = acceptor.clone();
            let seen = seen.clone();
            let sim = sim.clone();
            tokio::spawn(async move {
                let tls = match acceptor.accept(io).await {
                    Ok(t) => t,
                    Err(e) => {
                        sim.ev(|| format!("raw server: TLS accept failed: {e}"));
                        return;
                    }
                };
                let mut conn = match h2::server::handshake(tls).await {
                    Ok(c) => c,
                    Err(e) => {
                        sim.ev(|| format!("raw server: h2 handshake failed: {e}"));
                        return;
                    }
                };
                while let Some(Ok((req, mut respond))) = conn.accept().await {
                    seen.requests.fetch_add(1, Ordering::SeqCst);
                    seen.peer_certs.lock().unwrap().push(None);
                    sim.ev(|| format!("raw server: request {} {}", req.method(), req.uri()));
                    let resp = http::Response::builder().status(200).header("content-type", "application/grpc").body(()).unwrap();
                    if let Ok(mut s) = respond.send_response(resp, false) {
                        let _ = s.send_data(Bytes::from_static(&[0, 0, 0, 0, 2, 8, 1]), false);
                        let mut t = http::HeaderMap::new();
                        t.insert("grpc-status", "0".parse().unwrap());
                        let _ = s.send_trailers(t);
                    }
                }
            });
        }
    });
}

fn v(sim: &Sim, class: &str, detail: String) {
    sim.violation(class, detail);
}

fn contains(h: &[u8], n: &[u8]) -> bool {
    !n.is_empty() && h.windows(n.len()).any(|w| w == n)
}

fn run_matrix(sim: &Sim, idx: u64) {
    let c = cell(idx);
    let netcfg = NetCfg { capture: true, trace_bytes: false, stall_pct: sim.pick(&[0u64, 0, 10]), max_stall_us: 200, ..NetCfg::draw(sim) };
    sim.nontrivial();
    sim.sample(|| format!("{c:?}"));
    sim.ev(|| format!("config: cell {} {c:?}", idx % GRID));
    // the endpoint's *origin* (the `:authority` / scheme override for requests) may be set, before
    // the TLS configuration; it is not the peer's name. Variant 2: the URI names a host the
    // certificate is not for, the origin the one it is for.
    let origin_variant = sim.weighted(&[4, 1, 1]);
    let uri_host_wrong = origin_variant == 2;
    sim.ev(|| format!("config: origin_variant={origin_variant}"));
    // a valid client identity is either a single certificate issued by the client CA or a chain
    // (leaf + intermediate); `use_key_log()` (SSLKEYLOGFILE support: a no-op without that variable)
    // on either side must not change any verdict
    let chain_identity = sim.chance(1, 2);
    let client_key_log = sim.chance(1, 4);
    let server_key_log = sim.chance(1, 4);
    sim.ev(|| format!("config: chain_identity={chain_identity} client_key_log={client_key_log} server_key_log={server_key_log}"));
    let chain_ok = c.roots == Roots::Right;
    let name_ok = match c.domain {
        Domain::ConfiguredMatching => true,
        Domain::ConfiguredNonMatching => false,
        Domain::FromUri => !uri_host_wrong,
    };
    let h2_ok = c.alpn == Alpn::H2 || (c.alpn == Alpn::NoAlpn && c.assume_http2);
    let auth_ok = match (c.auth, c.ident) {
        (ClientAuth::NoAuth, _) => Some(true),
        (ClientAuth::Required, Ident::Valid) => Some(true),
        (ClientAuth::Required, _) => Some(false),
        (ClientAuth::Optional, Ident::Valid) | (ClientAuth::Optional, Ident::NoIdent) => Some(true),
        (ClientAuth::Optional, Ident::OtherCa) => None, // the property leaves this cell open
    };
    // (server http/1.1-only with a caller that opted out of the ALPN check: not judged for success)
    let alpn_unjudged = c.alpn == Alpn::Http11 && c.assume_http2;
    let expect: Option<bool> = match auth_ok {
        None => None,
        Some(a) => {
            if alpn_unjudged && chain_ok && name_ok && a {
                None
            } else {
                Some(chain_ok && name_ok && h2_ok && a)
            }
        }
    };
    let rt = simnet::runtime(sim, sim.content_seed());
    let _freeze = simnet::freeze_guard(sim);
    let res = rt.block_on(async {
        let t0 = tokio::time::Instant::now();
        let r = tokio::time::timeout(Duration::from_secs(600), async {
            let net = SimNet::new(sim, netcfg);
            let (connector, rx) = SimConnector::new(&net, vec![]);
            let seen = Seen::default();
            let mut plaintext_probe_tx: Option<tokio::sync::mpsc::UnboundedSender<SimStream>> = None;
            if c.alpn == Alpn::H2 {
                // tonic's own acceptor
                let mut tls = ServerTlsConfig::new().identity(Identity::from_pem(SERVER_PEM, SERVER_KEY));
                match c.auth {
                    ClientAuth::NoAuth => {}
                    // (sometimes as a bundle with another CA in front)
                    ClientAuth::Required if sim.chance(1, 3) => tls = tls.client_ca_root(Certificate::from_pem(format!("{CA_A}\n{CA_C}"))),
                    ClientAuth::Required => tls = tls.client_ca_root(Certificate::from_pem(CA_C)),
                    ClientAuth::Optional => tls = tls.client_ca_root(Certificate::from_pem(CA_C)).client_auth_optional(true),
                }
                if sim.chance(1, 3) {
                    tls = tls.ignore_client_order(sim.chance(1, 2));
                }
                if server_key_log {
                    tls = tls.use_key_log();
                }
                let svc = HealthServer::new(CountingHealth(seen.clone()));
                let builder = match Server::builder().tls_config(tls) {
                    Ok(b) => b,
                    Err(e) => return Err(format!("server tls_config: {e}")),
                };
                let mut builder = builder;
                let router = builder.add_service(svc);
                // the incoming stream stays open for the whole run; the listener may first report
                // accept errors (transient or not): they change nothing for the connections after them
                let n_errs = if sim.chance(1, 4) { sim.range(1, 2) } else { 0 };
                let errs: Vec<Result<SimStream, std::io::Error>> = (0..n_errs)
                    .map(|_| Err(std::io::Error::new(sim.pick(&[std::io::ErrorKind::Other, std::io::ErrorKind::OutOfMemory, std::io::ErrorKind::ConnectionAborted, std::io::ErrorKind::PermissionDenied]), "simulated accept error")))
                    .collect();
                if n_errs > 0 {
                    sim.fault("accept-error-on-tls-listener");
                }
                // connections from the connector and, later, one plaintext client are fed through `in_tx`
                let (in_tx, in_rx) = tokio::sync::mpsc::unbounded_channel::<SimStream>();
                {
                    let in_tx = in_tx.clone();
                    let mut rx = rx;
                    tokio::spawn(async move {
                        while let Some(s) = rx.recv().await {
                            let _ = in_tx.send(s);
                        }
                    });
                }
                plaintext_probe_tx = Some(in_tx);
                let incoming = tokio_stream::iter(errs).chain(tokio_stream::wrappers::UnboundedReceiverStream::new(in_rx).map(Ok::<_, std::io::Error>));
                tokio::spawn(async move {
                    let _ = router.serve_with_incoming(incoming).await;
                });
            } else {
                raw_tls_server(sim, c, seen.clone(), rx);
            }
            // ---- the tonic client
            // `with_enabled_roots()` ("activates all TLS roots enabled through feature flags": none in
            // this build) may be called anywhere in the builder chain; it adds roots, it takes nothing away
            let enabled_roots_at = sim.weighted(&[6, 1, 1, 1]); // 0 = not called, 1 = first, 2 = after the domain, 3 = last
            let mut tls = ClientTlsConfig::new();
            if enabled_roots_at == 1 {
                tls = tls.with_enabled_roots();
            }
            tls = tls.assume_http2(c.assume_http2);
            if client_key_log {
                tls = tls.use_key_log();
                sim.probe("client-use-key-log");
            }
            // the same trust configuration through the different builder methods, roots and domain
            // in either order (all drawn)
            let roots_variant = sim.draw(4);
            let apply_roots = |tls: ClientTlsConfig| -> ClientTlsConfig {
                match (c.roots, roots_variant) {
                    (Roots::Right, 0) => tls.ca_certificate(Certificate::from_pem(CA_A)),
                    (Roots::Right, 1) => tls.ca_certificates(vec![Certificate::from_pem(CA_A)]),
                    (Roots::Right, 2) => tls.ca_certificates(vec![Certificate::from_pem(CA_B), Certificate::from_pem(CA_A)]),
                    // a CA *bundle*: several certificates in one PEM, the right one not first
                    (Roots::Right, _) => tls.ca_certificate(Certificate::from_pem(format!("{CA_B}\n{CA_A}"))),
                    (Roots::Other, 0) => tls.ca_certificate(Certificate::from_pem(CA_B)),
                    (Roots::Other, 1) => tls.ca_certificates(vec![Certificate::from_pem(CA_B)]),
                    (Roots::Other, _) => tls.ca_certificate(Certificate::from_pem(CA_C)).ca_certificate(Certificate::from_pem(CA_B)),
                    (Roots::None, _) => tls,
                }
            };
            let apply_domain = |tls: ClientTlsConfig| -> ClientTlsConfig {
                match c.domain {
                    Domain::ConfiguredMatching => tls.domain_name("sim.test"),
                    Domain::ConfiguredNonMatching => tls.domain_name("other.test"),
                    Domain::FromUri => tls,
                }
            };
            let domain_first = sim.chance(1, 2);
            tls = if domain_first { apply_domain(tls) } else { apply_roots(tls) };
            if enabled_roots_at == 2 {
                tls = tls.with_enabled_roots();
                sim.probe("with-enabled-roots-mid-chain");
            }
            tls = if domain_first { apply_roots(tls) } else { apply_domain(tls) };
            match c.ident {
                Ident::NoIdent => {}
                Ident::Valid if chain_identity => tls = tls.identity(Identity::from_pem(CLIENT_CHAIN_PEM, CLIENT_CHAIN_KEY)),
                Ident::Valid => tls = tls.identity(Identity::from_pem(CLIENT_OK_PEM, CLIENT_OK_KEY)),
                Ident::OtherCa => tls = tls.identity(Identity::from_pem(CLIENT_OTHER_PEM, CLIENT_OTHER_KEY)),
            }
            if enabled_roots_at == 3 {
                tls = tls.with_enabled_roots();
                sim.probe("with-enabled-roots-mid-chain");
            }
            let ep = match origin_variant {
                0 => Endpoint::from_static("https://sim.test:443"),
                1 => Endpoint::from_static("https://sim.test:443").origin("https://other.test".parse().unwrap()),
                _ => Endpoint::from_static("https://wrong.test:443").origin("https://sim.test".parse().unwrap()),
            };
            if origin_variant > 0 {
                sim.probe("endpoint-origin-differs-from-uri");
            }
            let ep = match ep.tls_config(tls) {
                Ok(e) => e,
                Err(e) => return Err(format!("client tls_config: {e}")),
            };
            let lazy = sim.chance(1, 2);
            let ch = if lazy {
                Ok(ep.connect_with_connector_lazy(connector.clone()))
            } else {
                ep.connect_with_connector(connector.clone()).await
            };
            let outcome: Result<i32, String> = match ch {
                Err(e) => Err(format!("connect: {e:?}")),
                Ok(ch) => {
                    let mut client = HealthClient::new(ch);
                    let mut req = tonic::Request::new(HealthCheckRequest { service: CANARY.to_string() });
                    req.metadata_mut().insert("x-canary", CANARY.parse().unwrap());
                    match client.check(req).await {
                        Ok(r) => Ok(r.into_inner().status),
                        Err(e) => Err(format!("call: {:?} {}", e.code(), e.message())),
                    }
                }
            };
            // let the dust settle (alerts, close_notify)
            tokio::time::sleep(Duration::from_millis(50)).await;
            // ---- a client that does not speak TLS at all against the TLS server: never served
            let mut plaintext_conn: Option<usize> = None;
            let mut plaintext_served = false;
            if let Some(tx) = plaintext_probe_tx {
                let before = seen.requests.load(Ordering::SeqCst);
                let (cio, sio) = net.pair();
                plaintext_conn = Some(sio.conn_id());
                let _ = tx.send(sio);
                let probe = tokio::time::timeout(Duration::from_secs(5), async move {
                    let (mut send, conn) = h2::client::handshake(cio).await.ok()?;
                    tokio::spawn(async move {
                        let _ = conn.await;
                    });
                    let req = http::Request::builder().method("POST").uri("http://sim.test/grpc.health.v1.Health/Check").header("content-type", "application/grpc").header("te", "trailers").body(()).ok()?;
                    let (resp, mut body) = send.send_request(req, false).ok()?;
                    let _ = body.send_data(bytes::Bytes::from_static(&[0, 0, 0, 0, 0]), true);
                    resp.await.ok().map(|r| r.status())
                })
                .await;
                tokio::time::sleep(Duration::from_millis(50)).await;
                plaintext_served = matches!(probe, Ok(Some(_))) || seen.requests.load(Ordering::SeqCst) != before;
                sim.probe("plaintext-client-against-tls-server");
            }
            Ok((outcome, seen, net, plaintext_conn, plaintext_served))
        })
        .await;
        sim.add_time_ns(t0.elapsed().as_nanos() as u64);
        r
    });
    sim.freeze();
    drop(rt);
    let (outcome, seen, net, plaintext_conn, plaintext_served) = match res {
        Err(_) => return v(sim, "call-hangs", format!("{c:?}: neither connect nor call completed within 600 virtual seconds")),
        Ok(Err(e)) => return v(sim, "setup-failed", format!("{c:?}: {e}")),
        Ok(Ok(x)) => x,
    };
    // requests that reached a handler during the TLS call (the plaintext probe comes after it)
    let n_req = seen.requests.load(Ordering::SeqCst) - if plaintext_served && seen.requests.load(Ordering::SeqCst) > 0 { 1 } else { 0 };
    if plaintext_served {
        v(sim, "plaintext-client-served-by-tls-server", format!("{c:?}: a client that never started a TLS handshake got an HTTP/2 response or reached a handler"));
    }
    // ---- oracle
    match expect {
        Some(true) => {
            sim.probe("cell-expected-success");
            if outcome.is_err() || n_req != 1 {
                v(sim, "legitimate-peer-refused", format!("{c:?}: outcome {outcome:?}, requests seen by the server {n_req}"));
            }
            if c.alpn == Alpn::H2 && c.ident == Ident::Valid && c.auth != ClientAuth::NoAuth {
                // handlers see the verified peer certificate
                // ... all of them: the whole chain the client presented and the server verified
                let want: Vec<Vec<u8>> = certs(if chain_identity { CLIENT_CHAIN_PEM } else { CLIENT_OK_PEM }).into_iter().map(|d| d.as_ref().to_vec()).collect();
                let got: Option<Vec<Vec<u8>>> = seen.peer_certs.lock().unwrap().first().cloned().flatten();
                if got.as_ref() != Some(&want) {
                    v(sim, "peer-certificate-not-exposed-to-handler", format!("{c:?} chain_identity={chain_identity}: handler saw certificates of {:?} bytes, client presented {:?}", got.map(|g| g.iter().map(|x| x.len()).collect::<Vec<_>>()), want.iter().map(|w| w.len()).collect::<Vec<_>>()));
                } else {
                    sim.probe(if chain_identity { "peer-cert-chain-seen-by-handler" } else { "peer-cert-seen-by-handler" });
                }
            }
        }
        Some(false) => {
            sim.probe("cell-expected-failure");
            if outcome.is_ok() {
                v(sim, "call-succeeded-in-a-cell-that-must-fail", format!("{c:?}: the call succeeded"));
            }
            if n_req != 0 {
                v(sim, "request-reached-handler-in-a-cell-that-must-fail", format!("{c:?}: {n_req} requests reached the server's handler/peer (outcome {outcome:?})"));
            }
        }
        None => {
            sim.probe("cell-not-judged");
        }
    }
    // ---- never plaintext: every client->server byte stream starts with a TLS handshake record and
    // carries neither the HTTP/2 preface nor the request canary in clear
    for id in 0..net.n_conns() {
        if Some(id) == plaintext_conn {
            continue; // the probe's own connection is plaintext on purpose
        }
        let conn = net.conn(id);
        let conn = conn.lock().unwrap();
        let c2s = conn.captured_c2s();
        if c2s.is_empty() {
            continue;
        }
        if !(c2s[0] == 0x16 && c2s.len() >= 3 && c2s[1] == 0x03) {
            v(sim, "plaintext-on-https-connection", format!("{c:?}: connection {id}: first client bytes {:02x?} are not a TLS handshake record", &c2s[..c2s.len().min(8)]));
        }
        if contains(c2s, b"PRI * HTTP/2.0") || contains(c2s, CANARY.as_bytes()) {
            v(sim, "plaintext-on-https-connection", format!("{c:?}: connection {id}: HTTP/2 preface or request canary visible in clear"));
        }
        if contains(conn.captured_s2c(), CANARY.as_bytes()) {
            v(sim, "plaintext-on-https-connection", format!("{c:?}: connection {id}: canary visible in clear in the server->client direction"));
        }
    }
}

/// `https` endpoint with no TLS configuration: an error, and not a single byte on the wire.
/// A server whose client-CA material contains no usable certificate (empty file, the wrong file,
/// garbage): no client can possibly present "a certificate issued by it", so either the
/// configuration is refused or every client is; an unauthenticated client is never served.
fn run_unusable_client_ca(sim: &Sim, idx: u64) {
    const PEMS: [(&str, &str); 5] = [
        ("empty", ""),
        ("not-pem", "this is not a PEM file\n"),
        ("only-a-private-key", SERVER_KEY),
        ("certificate-block-with-garbage-der", "-----BEGIN CERTIFICATE-----\nAAAA\n-----END CERTIFICATE-----\n"),
        ("whitespace", "\n\n  \n"),
    ];
    let (pem_name, pem) = PEMS[(idx % 5) as usize];
    let optional = (idx / 5) % 2 == 1;
    let ident = [Ident::NoIdent, Ident::Valid, Ident::OtherCa][((idx / 10) % 3) as usize];
    let netcfg = NetCfg { capture: false, trace_bytes: false, stall_pct: sim.pick(&[0u64, 10]), max_stall_us: 200, ..NetCfg::draw(sim) };
    sim.nontrivial();
    sim.sample(|| format!("client CA = {pem_name}, client_auth_optional={optional}, client identity {ident:?}"));
    sim.ev(|| format!("config: client CA = {pem_name}, optional={optional}, identity {ident:?}"));
    let rt = simnet::runtime(sim, sim.content_seed());
    let _freeze = simnet::freeze_guard(sim);
    let res = rt.block_on(async {
        tokio::time::timeout(Duration::from_secs(600), async {
            let net = SimNet::new(sim, netcfg);
            let (connector, rx) = SimConnector::new(&net, vec![]);
            let seen = Seen::default();
            let tls = ServerTlsConfig::new().identity(Identity::from_pem(SERVER_PEM, SERVER_KEY)).client_ca_root(Certificate::from_pem(pem)).client_auth_optional(optional);
            let mut builder = match Server::builder().tls_config(tls) {
                Ok(b) => b,
                Err(_) => return None, // the configuration is refused: nothing can be served
            };
            let router = builder.add_service(HealthServer::new(CountingHealth(seen.clone())));
            let incoming = tokio_stream::wrappers::UnboundedReceiverStream::new(rx).map(Ok::<_, std::io::Error>);
            tokio::spawn(async move {
                let _ = router.serve_with_incoming(incoming).await;
            });
            let mut tls = ClientTlsConfig::new().ca_certificate(Certificate::from_pem(CA_A)).domain_name("sim.test");
            match ident {
                Ident::NoIdent => {}
                Ident::Valid => tls = tls.identity(Identity::from_pem(CLIENT_OK_PEM, CLIENT_OK_KEY)),
                Ident::OtherCa => tls = tls.identity(Identity::from_pem(CLIENT_OTHER_PEM, CLIENT_OTHER_KEY)),
            }
            let ep = Endpoint::from_static("https://sim.test:443").tls_config(tls).expect("harness: client tls config");
            let ch = ep.connect_with_connector_lazy(connector.clone());
            let mut client = HealthClient::new(ch);
            let outcome = client.check(tonic::Request::new(HealthCheckRequest { service: CANARY.to_string() })).await.map(|_| ()).map_err(|e| format!("{:?} {}", e.code(), e.message()));
            tokio::time::sleep(Duration::from_millis(50)).await;
            Some((outcome, seen.requests.load(Ordering::SeqCst)))
        })
        .await
    });
    sim.freeze();
    drop(rt);
    match res {
        Err(_) => v(sim, "call-hangs", format!("client CA = {pem_name}: no outcome within 600 virtual seconds")),
        Ok(None) => sim.probe("unusable-client-ca-refused-at-configuration"),
        Ok(Some((outcome, n_req))) => {
            sim.probe("unusable-client-ca-accepted-at-configuration");
            // with client authentication *required* nobody can be served; with it optional an
            // anonymous client may be (that is what optional means), one with a certificate the
            // (empty) CA did not issue is left open by the property
            if !optional && (outcome.is_ok() || n_req > 0) {
                v(sim, "client-served-although-client-ca-has-no-certificates", format!("client CA = {pem_name}, client identity {ident:?}: outcome {outcome:?}, {n_req} requests reached the handler"));
            }
        }
    }
}

/// Two tonic servers in one process — a public one without client authentication and an admin
/// one that requires a client certificate — and one channel whose first connection goes to the
/// public server and, after that connection has died, the next ones to the admin server (the
/// client keeps its TLS session cache across reconnects). The admin server serves only clients
/// presenting a certificate issued by its client CA: a session begun elsewhere is no credential.
fn run_two_servers(sim: &Sim, _idx: u64) {
    let netcfg = NetCfg { capture: false, trace_bytes: false, stall_pct: sim.pick(&[0u64, 10]), max_stall_us: 200, ..NetCfg::draw(sim) };
    let ident = sim.pick(&[Ident::NoIdent, Ident::NoIdent, Ident::OtherCa, Ident::Valid]);
    let kill = sim.pick(&[simnet::KillKind::Eof, simnet::KillKind::Reset]);
    sim.nontrivial();
    sim.sample(|| format!("public server then admin server (client CA required); client identity {ident:?}; first connection dies by {kill:?}"));
    sim.ev(|| format!("config: identity {ident:?} kill {kill:?}"));
    let rt = simnet::runtime(sim, sim.content_seed());
    let _freeze = simnet::freeze_guard(sim);
    let res = rt.block_on(async {
        tokio::time::timeout(Duration::from_secs(600), async {
            let net = SimNet::new(sim, netcfg);
            let (connector, mut rx) = SimConnector::new(&net, vec![]);
            let (public_seen, admin_seen) = (Seen::default(), Seen::default());
            let (pub_tx, pub_rx) = tokio::sync::mpsc::unbounded_channel::<SimStream>();
            let (adm_tx, adm_rx) = tokio::sync::mpsc::unbounded_channel::<SimStream>();
            // connection 0 -> public, every later one -> admin
            tokio::spawn(async move {
                let mut n = 0;
                while let Some(s) = rx.recv().await {
                    let _ = if n == 0 { pub_tx.send(s) } else { adm_tx.send(s) };
                    n += 1;
                }
            });
            for (seen, rxs, admin) in [(public_seen.clone(), pub_rx, false), (admin_seen.clone(), adm_rx, true)] {
                let mut tls = ServerTlsConfig::new().identity(Identity::from_pem(SERVER_PEM, SERVER_KEY));
                if admin {
                    tls = tls.client_ca_root(Certificate::from_pem(CA_C));
                }
                let mut builder = Server::builder().tls_config(tls).expect("harness: server tls config");
                let router = builder.add_service(HealthServer::new(CountingHealth(seen)));
                let incoming = tokio_stream::wrappers::UnboundedReceiverStream::new(rxs).map(Ok::<_, std::io::Error>);
                tokio::spawn(async move {
                    let _ = router.serve_with_incoming(incoming).await;
                });
            }
            let mut tls = ClientTlsConfig::new().ca_certificate(Certificate::from_pem(CA_A)).domain_name("sim.test");
            match ident {
                Ident::NoIdent => {}
                Ident::Valid => tls = tls.identity(Identity::from_pem(CLIENT_OK_PEM, CLIENT_OK_KEY)),
                Ident::OtherCa => tls = tls.identity(Identity::from_pem(CLIENT_OTHER_PEM, CLIENT_OTHER_KEY)),
            }
            let ep = Endpoint::from_static("https://sim.test:443").tls_config(tls).expect("harness: client tls config");
            let ch = ep.connect_with_connector_lazy(connector.clone());
            let mut client = HealthClient::new(ch);
            let first = client.check(tonic::Request::new(HealthCheckRequest { service: CANARY.to_string() })).await.map(|_| ()).map_err(|e| format!("{:?} {}", e.code(), e.message()));
            tokio::time::sleep(Duration::from_millis(20)).await;
            if net.n_conns() > 0 {
                net.kill(0, kill);
            }
            tokio::time::sleep(Duration::from_millis(20)).await;
            let mut later = vec![];
            for _ in 0..3 {
                later.push(client.check(tonic::Request::new(HealthCheckRequest { service: CANARY.to_string() })).await.map(|_| ()).map_err(|e| format!("{:?} {}", e.code(), e.message())));
                tokio::time::sleep(Duration::from_millis(20)).await;
            }
            let admin_certs = admin_seen.peer_certs.lock().unwrap().clone();
            (first, later, public_seen.requests.load(Ordering::SeqCst), admin_seen.requests.load(Ordering::SeqCst), admin_certs)
        })
        .await
    });
    drop(_freeze);
    drop(rt);
    match res {
        Err(_) => v(sim, "call-hangs", "two servers: no outcome within 600 virtual seconds".into()),
        Ok((first, later, n_public, n_admin, admin_certs)) => {
            if first.is_err() || n_public != 1 {
                v(sim, "legitimate-peer-refused", format!("the public server (no client authentication) did not serve the first call: {first:?}, requests seen {n_public}"));
            }
            sim.probe("second-server-with-stricter-client-auth");
            let admin_must_serve = ident == Ident::Valid;
            if admin_must_serve {
                if !later.iter().any(|r| r.is_ok()) || n_admin == 0 {
                    v(sim, "legitimate-peer-refused", format!("the admin server did not serve a client presenting a certificate of its CA: {later:?}"));
                } else if admin_certs.iter().any(|c| c.as_ref().map(|v| v.is_empty()).unwrap_or(true)) {
                    v(sim, "peer-certificate-not-exposed-to-handler", "the admin server's handler saw no verified client certificate".into());
                }
            } else if later.iter().any(|r| r.is_ok()) || n_admin != 0 {
                v(sim, "client-without-valid-certificate-served", format!("client identity {ident:?}: the admin server (client CA required) served it after it had talked to the public server: outcomes {later:?}, requests at the admin handler {n_admin}"));
            }
        }
    }
}

/// C14 over TLS: a channel to an https endpoint whose connections die (1..3 times) between calls.
/// Every reconnection has to go through the TLS connector again; a call at a quiescent point after
/// a death (at the latest the one after it) succeeds, without the application rebuilding the channel.
fn run_tls_reconnect(sim: &Sim, _idx: u64) {
    let netcfg = NetCfg { capture: false, trace_bytes: false, stall_pct: sim.pick(&[0u64, 10]), max_stall_us: 200, ..NetCfg::draw(sim) };
    let lazy = sim.chance(1, 2);
    let deaths = sim.range(1, 3) as usize;
    let first_fails = lazy && sim.chance(1, 3);
    sim.nontrivial();
    sim.sample(|| format!("TLS channel ({}), {deaths} connection deaths between calls, first attempt refused={first_fails}", if lazy { "lazy" } else { "eager" }));
    sim.ev(|| format!("config: lazy={lazy} deaths={deaths} first_fails={first_fails}"));
    let rt = simnet::runtime(sim, sim.content_seed());
    let _freeze = simnet::freeze_guard(sim);
    let res: Result<Option<String>, tokio::time::error::Elapsed> = rt.block_on(async {
        tokio::time::timeout(Duration::from_secs(3600), async {
            let net = SimNet::new(sim, netcfg);
            let script = if first_fails { vec![simnet::ConnectStep::Fail(std::io::ErrorKind::ConnectionRefused)] } else { vec![] };
            let (connector, rx) = SimConnector::new(&net, script);
            let seen = Seen::default();
            let tls = ServerTlsConfig::new().identity(Identity::from_pem(SERVER_PEM, SERVER_KEY));
            let mut builder = Server::builder().tls_config(tls).expect("harness: server tls config");
            let router = builder.add_service(HealthServer::new(CountingHealth(seen.clone())));
            let incoming = tokio_stream::wrappers::UnboundedReceiverStream::new(rx).map(Ok::<_, std::io::Error>);
            tokio::spawn(async move {
                let _ = router.serve_with_incoming(incoming).await;
            });
            let tls = ClientTlsConfig::new().ca_certificate(Certificate::from_pem(CA_A)).domain_name("sim.test");
            let ep = Endpoint::from_static("https://sim.test:443").tls_config(tls).expect("harness: client tls config");
            let ch = if lazy {
                ep.connect_with_connector_lazy(connector.clone())
            } else {
                match ep.connect_with_connector(connector.clone()).await {
                    Ok(c) => c,
                    Err(e) => return Some(format!("eager connect to a reachable TLS endpoint failed: {e:?}")),
                }
            };
            let mut client = HealthClient::new(ch);
            let call = |client: &mut HealthClient<tonic::transport::Channel>| {
                let mut c = client.clone();
                async move { tokio::time::timeout(Duration::from_secs(120), c.check(tonic::Request::new(HealthCheckRequest { service: CANARY.to_string() }))).await }
            };
            if first_fails {
                // the refused attempt is that call's failure; nothing of it may linger
                match call(&mut client).await {
                    Err(_) => return Some("the call that met the refused attempt did not complete".into()),
                    Ok(Ok(_)) => return Some("a call succeeded although the only connection attempt was refused".into()),
                    Ok(Err(_)) => {}
                }
                tokio::time::sleep(Duration::from_secs(1)).await;
            }
            for round in 0..=deaths {
                let mut ok = false;
                for attempt in 0..2 {
                    match call(&mut client).await {
                        Err(_) => return Some(format!("round {round}: a call did not complete within 120 virtual seconds")),
                        Ok(Ok(_)) => {
                            ok = true;
                            break;
                        }
                        Ok(Err(e)) => {
                            sim.ev(|| format!("round {round} attempt {attempt}: {:?} {}", e.code(), e.message()));
                            tokio::time::sleep(Duration::from_secs(1)).await;
                        }
                    }
                }
                if !ok {
                    return Some(format!("round {round}: after {round} connection deaths two successive calls at quiescent points failed although the endpoint is reachable"));
                }
                if round < deaths {
                    tokio::time::sleep(Duration::from_millis(50)).await;
                    for id in 0..net.n_conns() {
                        net.kill(id, sim.pick(&[simnet::KillKind::Eof, simnet::KillKind::Reset]));
                    }
                    tokio::time::sleep(Duration::from_secs(1)).await;
                }
            }
            None
        })
        .await
    });
    drop(_freeze);
    drop(rt);
    match res {
        Err(_) => sim.violation("C14/run-hangs", "TLS reconnect: the scenario did not finish within the virtual horizon".into()),
        Ok(Some(e)) => sim.violation("C14/call-fails-although-endpoint-reachable", format!("TLS channel: {e}")),
        Ok(None) => sim.probe("tls-channel-reconnected"),
    }
}

fn run_https_without_tls(sim: &Sim, _idx: u64) {
    let netcfg = NetCfg { capture: true, trace_bytes: false, ..NetCfg::ideal() };
    sim.nontrivial();
    let lazy = sim.chance(1, 2);
    sim.sample(|| format!("https URI, no tls_config, lazy={lazy}"));
    let rt = simnet::runtime(sim, sim.content_seed());
    let _freeze = simnet::freeze_guard(sim);
    let res = rt.block_on(async {
        tokio::time::timeout(Duration::from_secs(600), async {
            let net = SimNet::new(sim, netcfg);
            let (connector, mut rx) = SimConnector::new(&net, vec![]);
            // a plaintext h2 server that would happily answer
            let served = Arc::new(AtomicU64::new(0));
            let served2 = served.clone();
            tokio::spawn(async move {
                while let Some(io) = rx.recv().await {
                    let served = served2.clone();
                    tokio::spawn(async move {
                        if let Ok(mut conn) = h2::server::handshake(io).await {
                            while let Some(Ok((_req, mut respond))) = conn.accept().await {
                                served.fetch_add(1, Ordering::SeqCst);
                                let resp = http::Response::builder().status(200).header("content-type", "application/grpc").header("grpc-status", "0").body(()).unwrap();
                                let _ = respond.send_response(resp, true);
                            }
                        }
                    });
                }
            });
            let ep = Endpoint::from_static("https://sim.test:443");
            let ch = if lazy { Ok(ep.connect_with_connector_lazy(connector.clone())) } else { ep.connect_with_connector(connector.clone()).await };
            let outcome = match ch {
                Err(e) => Err(format!("connect: {e:?}")),
                Ok(ch) => {
                    let mut client = HealthClient::new(ch);
                    client.check(HealthCheckRequest { service: CANARY.to_string() }).await.map(|_| ()).map_err(|e| format!("{:?} {}", e.code(), e.message()))
                }
            };
            tokio::time::sleep(Duration::from_millis(10)).await;
            let bytes: u64 = (0..net.n_conns()).map(|i| net.conn(i).lock().unwrap().bytes_c2s()).sum();
            (outcome, served.load(Ordering::SeqCst), bytes)
        })
        .await
    });
    sim.freeze();
    drop(rt);
    match res {
        Err(_) => v(sim, "call-hangs", "https without TLS config: no outcome within 600 virtual seconds".into()),
        Ok((outcome, served, bytes)) => {
            sim.probe("https-without-tls-config");
            if outcome.is_ok() || served > 0 {
                v(sim, "https-uri-served-in-plaintext", format!("outcome {outcome:?}, requests served in plaintext: {served}"));
            }
            if bytes > 0 {
                v(sim, "plaintext-on-https-connection", format!("{bytes} bytes were written to the transport for an https endpoint without TLS configuration"));
            }
        }
    }
}

fn main() {
    // `use_key_log()` would write key material to the file named here (single-threaded at this point)
    std::env::remove_var("SSLKEYLOGFILE");
    simcore::main_with(vec![Property {
        id: "C15",
        title: "TLS channels and servers authenticate the peer and insist on HTTP/2",
        scenarios: vec![
            Scenario { name: "N-tls-matrix", engine: "N", run: run_matrix, quick: GRID * 8, thorough: GRID * 400, grid: GRID, what: "full matrix client roots x domain x server ALPN x assume_http2 x server client-auth x client identity (486 cells, enumerated completely, then again under further network schedules): tonic ClientTlsConfig against tonic ServerTlsConfig (ALPN h2) or against the harness's own rustls acceptor + raw h2 server (ALPN absent / http/1.1)" },
            Scenario { name: "N-unusable-client-ca", engine: "N", run: run_unusable_client_ca, quick: 120, thorough: 6_000, grid: 30, what: "server configured with client-CA material that contains no usable certificate (empty / not PEM / a private key / garbage DER / whitespace) x auth required/optional x client identity none/valid/other CA, all 30 cells enumerated first: either tls_config() refuses it or no client is served when authentication is required" },
            Scenario { name: "N-two-servers-one-client", engine: "N", run: run_two_servers, quick: 300, thorough: 20_000, grid: 0, what: "a public tonic server (no client auth) and an admin tonic server (client CA required) in one process; one channel whose first connection goes to the public server and, after it died, reconnects to the admin server with its TLS session cache intact: the admin server serves only a client presenting a certificate of its CA" },
            Scenario { name: "N-https-without-tls", engine: "N", run: run_https_without_tls, quick: 400, thorough: 10_000, grid: 0, what: "https endpoint without any TLS configuration in front of a plaintext h2 server that would answer" },
        ],
        rule: "one run = one cell of the configuration matrix x network fragmentation/stall schedule x lazy/eager connect; every run non-trivial; distinct = distinct hash of structural tape decisions and ordered network-event kinds; the first 486 runs enumerate the matrix completely",
        real_vs_stub: vec![
            ("tonic transport (Channel, Server, TLS wiring: ClientTlsConfig/ServerTlsConfig, TlsConnector/TlsAcceptor, ServerIo), hyper, h2", "real"),
            ("rustls / tokio-rustls / ring / webpki", "real (handshake randomness comes from ring's RNG; message lengths are deterministic, contents are not)"),
            ("server for ALPN != h2 rows", "harness's own rustls acceptor + raw h2 server (tonic's acceptor always offers h2)"),
            ("clock", "tokio paused clock; certificate validity is checked by rustls against the wall clock (PKI valid 2020..2120)"),
            ("network", "simnet byte pipes with full capture for the plaintext/canary scan"),
        ],
        assumptions: vec![
            "system date inside the PKI validity window 2020-01-01 .. 2120-01-01",
            "cells the property leaves open are not judged: (client-auth optional, identity from another CA) and (server offers only http/1.1, caller opted out of the ALPN check)",
            "Request::peer_certs() is typed to TcpConnectInfo and needs a real TCP socket; the handler reads the verified certificate through TlsConnectInfo<_>::peer_certs() in the request extensions",
            "replays reproduce schedule and verdict exactly, not ciphertext bytes",
        ],
        required_probes: vec!["cell-expected-success", "cell-expected-failure", "cell-not-judged", "peer-cert-seen-by-handler", "https-without-tls-config"],
    }, Property {
        id: "C14",
        title: "A channel always answers and recovers when the peer comes back (the TLS part; everything else is checked by tsim)",
        scenarios: vec![Scenario { name: "N-tls-reconnect", engine: "N", run: run_tls_reconnect, quick: 2_000, thorough: 100_000, grid: 0, what: "a TLS channel (real rustls on both ends) whose connections die 1..3 times between calls, optionally after a refused first attempt: every reconnection goes through the TLS connector again, and calls at quiescent points succeed without rebuilding the channel" }],
        rule: "one run = lazy/eager x number of connection deaths x kill kind x network schedule; every run non-trivial",
        real_vs_stub: vec![("tonic Channel / Reconnect / Connector with TLS, Server with TLS, hyper, h2, rustls", "real"), ("network, connector", "simnet (simulated)")],
        assumptions: vec!["calls are issued at quiescent points"],
        required_probes: vec!["tls-channel-reconnected"],
    }]);
}
