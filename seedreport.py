#!/usr/bin/env python3
"""Runs the quick checks against every seeded change under /verif/seeded (apply to /repo, run, undo) and
writes /verif/seeded/README.md plus `checks_run` into each meta.json.  usage: seedreport.py [name ...]"""
import json, os, subprocess, sys, re
ROOT='/verif'
REL={'C01':['C01','C03','C07'],'C02':['C02','C04','C08'],'C03':['C03'],'C04':['C04','C02'],'C05':['C05'],'C06':['C06'],'C07':['C07','C01','C04','C02'],'C08':['C08','C02'],'C09':['C09'],'C13':['C13'],'C14':['C14'],'C15':['C15'],'C16':['C16'],'C17':['C17'],'C18':['C18']}
allnames=sorted(d for d in os.listdir(f'{ROOT}/seeded') if os.path.isdir(f'{ROOT}/seeded/{d}'))
names=allnames
if len(sys.argv)>1: names=[n for n in names if n in sys.argv[1:]]
os.environ['VERIF_OUT_DIR']='/tmp/seedreport-out'   # evidence/replays of runs against a patched /repo never land in /verif
os.makedirs('/tmp/seedreport-out',exist_ok=True)
def sh(*a, **k): return subprocess.run(a, capture_output=True, text=True, **k)
assert sh('git','-C','/repo','diff','--quiet').returncode==0, 'repo dirty'
rev=sh('git','-C','/repo','rev-parse','--short=8','HEAD').stdout.strip()
def row_of(n,meta):
    runs=meta.get('checks_run',{}).get('runs',[])
    det='; '.join(f"{x['check'].split()[1]}: {', '.join(x['violation_classes'][:3])}" for x in runs if x['exit']==1) or ('NOT REPORTED' if runs else 'not measured')
    return (n,meta['breaks_property'],(meta.get('summary') or '')[:160].replace('|','/').replace('\n',' '),det)
rows=[]
for n in allnames:
    if n not in names:
        rows.append(row_of(n,json.load(open(f'{ROOT}/seeded/{n}/meta.json'))))
for n in names:
    d=f'{ROOT}/seeded/{n}'; meta=json.load(open(f'{d}/meta.json')); prop=meta['breaks_property']
    r=sh('git','-C','/repo','apply',f'{d}/patch.diff')
    if r.returncode!=0:
        rows.append((n,prop,'patch no longer applies to /repo HEAD '+rev,'-')); continue
    runs=[]
    try:
        for pid in REL.get(prop,[prop]):
            o=sh(f'{ROOT}/check',pid,'quick')
            classes=sorted(set(re.findall(r'violation class=(\S+)',o.stdout)))
            runs.append({'check':f'./check {pid} quick','exit':o.returncode,'violation_classes':classes})
    finally:
        sh('git','-C','/repo','checkout','--','.')
    meta['checks_run']={'repo_head':rev,'runs':runs,'detected':any(x['exit']==1 for x in runs)}
    json.dump(meta,open(f'{d}/meta.json','w'),indent=1)
    r=row_of(n,meta); rows.append(r)
    print(n,r[3],flush=True)
rows.sort()
with open(f'{ROOT}/seeded/README.md','w') as f:
    f.write(f"# Seeded changes\n\nWritten by independent sub-agents that were given only a property's text and a scratch worktree.\nEach was confirmed in a scratch worktree (confirm_mutant.sh): compiles, the existing tests of the touched crates pass,\nthe demonstration fails with the change and passes without it. Never committed to /repo. Detection measured by seedreport.py\nat /repo HEAD {rev} with the quick tier (exit 1 + VIOLATION line = reported).\n\n| name | property | change | reported by (quick tier): classes |\n|---|---|---|---|\n")
    for r in rows: f.write('| '+' | '.join(r)+' |\n')
print('written')
